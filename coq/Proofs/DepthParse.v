(* C11 — parsing: the structural `==` of popTag never looks below the tag names, whatever the
   callbacks; hence the depth of a parse is bounded and does not depend on what a deep comparison
   would cost or answer. *)
From Coq Require Import List NArith Bool Lia Arith ZArith.
From BS Require Import Base.Sexp Base.Types Model.Depth Proofs.DepthProofs.
Import ListNotations.
Local Open Scope nat_scope.

Section Parse.
Variable cfg : pconfig.

Definition in_set (l : list str) (t : open_tag) : bool := memS (ot_name t) l.
Definition ids_of (l : list str) (st : list open_tag) : list nat := map ot_id (filter (in_set l) st).

(* the two side stacks are the projections of the tag stack; object ids are distinct *)
Definition inv (s : pstate) : Prop :=
  NoDup (map ot_id (ps_stack s)) /\
  (forall t, In t (ps_stack s) -> ot_id t < ps_next s) /\
  ps_pws s = ids_of (pc_pws cfg) (ps_stack s) /\
  ps_scs s = ids_of (pc_containers cfg) (ps_stack s).

Lemma inv_ps0 : inv ps0.
Proof. unfold inv, ps0. cbn. split; [constructor|]. split; [intros ? []|]. split; reflexivity. Qed.

Lemma inv_data s b :
  inv s -> inv (mkps (ps_stack s) (ps_pws s) (ps_scs s) b (ps_closed s) (ps_next s)).
Proof. intros H. exact H. Qed.
Lemma inv_closed s l :
  inv s -> inv (mkps (ps_stack s) (ps_pws s) (ps_scs s) (ps_data s) l (ps_next s)).
Proof. intros H. exact H. Qed.

Lemma inv_push s name : inv s -> inv (push_tag cfg s name).
Proof.
  intros (Hnd & Hlt & Hp & Hs). unfold push_tag, inv. cbn [ps_stack ps_pws ps_scs ps_next map ot_id].
  repeat split.
  - constructor; [|exact Hnd]. intros Hin. apply in_map_iff in Hin as [t [Ht Hin]].
    apply Hlt in Hin. cbn in *. lia.
  - intros t [Ht|Hin]; [subst; cbn; lia|]. apply Hlt in Hin. lia.
  - rewrite Hp. unfold ids_of. cbn [filter].
    change (in_set (pc_pws cfg) {| ot_id := ps_next s; ot_name := name |}) with (memS name (pc_pws cfg)).
    destruct (memS name (pc_pws cfg)); reflexivity.
  - rewrite Hs. unfold ids_of. cbn [filter].
    change (in_set (pc_containers cfg) {| ot_id := ps_next s; ot_name := name |}) with (memS name (pc_containers cfg)).
    destruct (memS name (pc_containers cfg)); reflexivity.
Qed.

Lemma memS_congr a b l : str_eqb a b = true -> memS a l = memS b l.
Proof. intros H. apply str_eqb_eq in H. now subst. Qed.

Lemma find_id_unique (st : list open_tag) t :
  NoDup (map ot_id st) -> In t st -> find (fun u => Nat.eqb (ot_id u) (ot_id t)) st = Some t.
Proof.
  induction st as [|u st IH]; intros Hnd Hin; [contradiction|].
  cbn [find]. inversion Hnd as [|x l Hnotin Hnd']; subst.
  destruct Hin as [->|Hin].
  - now rewrite Nat.eqb_refl.
  - destruct (Nat.eqb (ot_id u) (ot_id t)) eqn:E.
    + apply Nat.eqb_eq in E. exfalso. apply Hnotin. rewrite E. now apply in_map.
    + now apply IH.
Qed.

(* one side stack: what `tag == stack[-1]` does when the side stack is the projection *)
Lemma side_stack_step deep eqres (l : list str) tag rest :
  NoDup (map ot_id (tag :: rest)) ->
  match ids_of l (tag :: rest) with
  | i :: r =>
      let nm := name_of_id (tag :: rest) i in
      (if (if Nat.eqb (ot_id tag) i then true
           else if negb (str_eqb (ot_name tag) nm) then false else eqres (ot_id tag) i)
       then r else ids_of l (tag :: rest)) = ids_of l rest /\
      d_stack_eq deep tag i nm = leaf
  | [] => ids_of l rest = []
  end.
Proof.
  intros Hnd. unfold ids_of, in_set. cbn [filter].
  destruct (memS (ot_name tag) l) eqn:Em; cbn [map].
  - unfold d_stack_eq. rewrite Nat.eqb_refl. split; reflexivity.
  - destruct (filter (fun t => memS (ot_name t) l) rest) as [|t' fr'] eqn:Ef; cbn [map]; [reflexivity|].
    assert (Hin : In t' rest /\ memS (ot_name t') l = true).
    { assert (H : In t' (filter (fun t => memS (ot_name t) l) rest)) by (rewrite Ef; now left).
      now apply filter_In in H. }
    destruct Hin as [Hin Hset].
    inversion Hnd as [|x l0 Hnotin Hnd']; subst.
    assert (Hne : Nat.eqb (ot_id tag) (ot_id t') = false).
    { apply Nat.eqb_neq. intros E. apply Hnotin. rewrite E. now apply in_map. }
    assert (Hname : name_of_id (tag :: rest) (ot_id t') = ot_name t').
    { unfold name_of_id. cbn [find]. rewrite Hne. now rewrite (find_id_unique rest t' Hnd' Hin). }
    cbn zeta. rewrite Hname.
    assert (Hdiff : str_eqb (ot_name tag) (ot_name t') = false).
    { destruct (str_eqb (ot_name tag) (ot_name t')) eqn:E; [|reflexivity].
      rewrite (memS_congr _ _ l E) in Em. congruence. }
    unfold d_stack_eq. rewrite Hne, Hdiff. cbn [negb]. split; reflexivity.
Qed.

(* popTag under the invariant: the result does not depend on the deep comparison, every `==` costs one
   frame, the invariant is kept *)
Definition pop_result (s : pstate) : pstate * list nat :=
  match ps_stack s with
  | [] => (s, [])
  | tag :: rest =>
      (mkps rest (ids_of (pc_pws cfg) rest) (ids_of (pc_containers cfg) rest) (ps_data s) (ps_closed s) (ps_next s),
       (match ps_pws s with [] => [] | _ => [leaf] end) ++ (match ps_scs s with [] => [] | _ => [leaf] end))
  end.

Lemma pop_tag_inv deep eqres s : inv s -> pop_tag deep eqres s = pop_result s.
Proof.
  intros (Hnd & Hlt & Hp & Hs). unfold pop_tag, pop_result.
  destruct (ps_stack s) as [|tag rest] eqn:Est; [reflexivity|].
  pose proof (side_stack_step deep eqres (pc_pws cfg) tag rest Hnd) as H1.
  pose proof (side_stack_step deep eqres (pc_containers cfg) tag rest Hnd) as H2.
  rewrite Hp, Hs.
  destruct (ids_of (pc_pws cfg) (tag :: rest)) as [|i r]; destruct (ids_of (pc_containers cfg) (tag :: rest)) as [|j q];
    cbn zeta in *.
  - rewrite H1, H2. reflexivity.
  - destruct H2 as [H2a H2b]. rewrite H1, H2a, H2b. reflexivity.
  - destruct H1 as [H1a H1b]. rewrite H1a, H1b, H2. reflexivity.
  - destruct H1 as [H1a H1b]. destruct H2 as [H2a H2b]. rewrite H1a, H1b, H2a, H2b. reflexivity.
Qed.

Lemma pop_result_inv s : inv s -> inv (fst (pop_result s)).
Proof.
  intros (Hnd & Hlt & Hp & Hs). unfold pop_result.
  destruct (ps_stack s) as [|tag rest] eqn:Est; cbn [fst]; [unfold inv; rewrite Est; auto|].
  unfold inv. cbn [ps_stack ps_pws ps_scs ps_next]. repeat split.
  - now inversion Hnd.
  - intros t Hin. apply Hlt. now right.
Qed.

Lemma pop_result_calls s : Forall (fun x => x <= 1) (snd (pop_result s)).
Proof.
  unfold pop_result. destruct (ps_stack s); cbn [snd]; [constructor|].
  apply Forall_app; split; [destruct (ps_pws s)|destruct (ps_scs s)]; fall; cl.
Qed.

(* _popToTag's loop *)
Lemma pop_to_inv deep eqres deep' eqres' fuel : forall s name,
  inv s ->
  pop_to deep eqres fuel s name = pop_to deep' eqres' fuel s name /\
  inv (fst (pop_to deep eqres fuel s name)) /\
  Forall (fun x => x <= 2) (snd (pop_to deep eqres fuel s name)).
Proof.
  induction fuel as [|f IH]; intros s name Hinv; cbn [pop_to].
  - split; [reflexivity|split; [exact Hinv|constructor]].
  - destruct (ps_stack s) as [|t rest] eqn:Est.
    + split; [reflexivity|split; [exact Hinv|constructor]].
    + rewrite (pop_tag_inv deep eqres s Hinv), (pop_tag_inv deep' eqres' s Hinv).
      pose proof (pop_result_inv s Hinv) as Hi'. pose proof (pop_result_calls s) as Hc.
      destruct (pop_result s) as [s' c]. cbn [fst snd] in *.
      assert (Hfr : fr c <= 2) by (apply fr_le; exact Hc).
      destruct (str_eqb (ot_name t) name).
      * cbn [fst snd]. split; [reflexivity|split; [exact Hi'|]]. constructor; [exact Hfr|constructor].
      * destruct (IH s' name Hi') as (He & Hi'' & Hc'').
        rewrite <- He. destruct (pop_to deep eqres f s' name) as [s'' c']. cbn [fst snd] in *.
        split; [reflexivity|split; [exact Hi''|]]. constructor; [exact Hfr|exact Hc''].
Qed.

Lemma pop_to_tag_inv deep eqres deep' eqres' s name :
  inv s ->
  d_pop_to_tag deep eqres cfg s name = d_pop_to_tag deep' eqres' cfg s name /\
  inv (fst (d_pop_to_tag deep eqres cfg s name)) /\
  snd (d_pop_to_tag deep eqres cfg s name) <= 3.
Proof.
  intros Hinv. unfold d_pop_to_tag.
  destruct (open_count s name); [split; [reflexivity|split; [exact Hinv|(cbn [fst snd]; cl)]]|].
  destruct (pop_to_inv deep eqres deep' eqres' (length (ps_stack s)) s name Hinv) as (He & Hi & Hc).
  rewrite <- He. destruct (pop_to deep eqres (length (ps_stack s)) s name) as [s' c]. cbn [fst snd] in *.
  split; [reflexivity|split; [exact Hi|]]. apply fr_le. constructor; [(cbn [fst snd]; cl)|exact Hc].
Qed.

Lemma d_end_data_le b : d_end_data b <= 3.
Proof. destruct b; vm_compute; lia. Qed.

Lemma soup_handle_endtag_inv deep eqres deep' eqres' s name :
  inv s ->
  soup_handle_endtag deep eqres cfg s name = soup_handle_endtag deep' eqres' cfg s name /\
  inv (fst (soup_handle_endtag deep eqres cfg s name)) /\
  snd (soup_handle_endtag deep eqres cfg s name) <= 4.
Proof.
  intros Hinv. unfold soup_handle_endtag.
  assert (Hc : inv (clear_data s)) by exact Hinv.
  destruct (pop_to_tag_inv deep eqres deep' eqres' (clear_data s) name Hc) as (He & Hi & Hd).
  rewrite <- He. destruct (d_pop_to_tag deep eqres cfg (clear_data s) name) as [s' p]. cbn [fst snd] in *.
  split; [reflexivity|split; [exact Hi|]]. apply fr_le. constructor; [apply d_end_data_le|]. constructor; [exact Hd|constructor].
Qed.

Lemma adapter_endtag_inv deep eqres deep' eqres' s name check :
  inv s ->
  adapter_endtag deep eqres cfg s name check = adapter_endtag deep' eqres' cfg s name check /\
  inv (fst (adapter_endtag deep eqres cfg s name check)) /\
  Forall (fun x => x <= 4) (snd (adapter_endtag deep eqres cfg s name check)).
Proof.
  intros Hinv. unfold adapter_endtag.
  destruct (check && memS name (ps_closed s)).
  - split; [reflexivity|split; [exact Hinv|constructor]].
  - destruct (soup_handle_endtag_inv deep eqres deep' eqres' s name Hinv) as (He & Hi & Hd).
    rewrite <- He. destruct (soup_handle_endtag deep eqres cfg s name) as [s' d]. cbn [fst snd] in *.
    split; [reflexivity|split; [exact Hi|]]. constructor; [exact Hd|constructor].
Qed.

Lemma d_tag_init_builder_le name attrs b : d_tag_init_builder cfg name attrs b <= 3.
Proof.
  unfold d_tag_init_builder. apply fr_le. apply Forall_app; split.
  - destruct (pc_cdata_list cfg).
    + destruct (dedup_keys attrs []); fall; (cbn [fst snd]; cl).
    + destruct (existsb _ _); fall; (cbn [fst snd]; cl).
  - apply Forall_app; split; [fall; (cbn [fst snd]; cl)|].
    destruct (str_eqb name meta_name); [|constructor].
    apply Forall_app; split; [fall; (cbn [fst snd]; cl)|].
    destruct (memS charset_name _); [fall; (cbn [fst snd]; cl)|].
    destruct (_ && _); fall; (cbn [fst snd]; cl).
Qed.

Lemma soup_handle_starttag_inv s name attrs :
  inv s -> inv (fst (soup_handle_starttag cfg s name attrs)) /\ snd (soup_handle_starttag cfg s name attrs) <= 4.
Proof.
  intros Hinv. unfold soup_handle_starttag. cbn [fst snd]. split.
  - apply inv_push. exact Hinv.
  - apply fr_le. constructor; [apply d_end_data_le|].
    constructor; [apply d_tag_init_builder_le|]. constructor; [(cbn [fst snd]; cl)|constructor].
Qed.

Lemma step_inv deep eqres deep' eqres' s cb :
  inv s ->
  step deep eqres cfg s cb = step deep' eqres' cfg s cb /\
  inv (fst (step deep eqres cfg s cb)) /\
  Forall (fun x => x <= 4) (snd (step deep eqres cfg s cb)).
Proof.
  intros Hinv. destruct cb as [name attrs sc|name| |]; cbn [step].
  - destruct (soup_handle_starttag_inv s name attrs Hinv) as (Hi1 & Hd1).
    destruct (soup_handle_starttag cfg s name attrs) as [s1 d1]. cbn [fst snd] in *.
    assert (Hset : Forall (fun x => x <= 4) (map (fun _ : str * str => d_setitem) attrs)).
    { apply Forall_const_map. intros; (cbn [fst snd]; cl). }
    assert (Hmid : Forall (fun x => x <= 4) [d1; leaf; leaf]) by (fall; [exact Hd1|cl|cl]).
    destruct sc.
    + destruct (adapter_endtag_inv deep eqres deep' eqres' s1 name false Hi1) as (He & Hi & Hc).
      rewrite <- He. destruct (adapter_endtag deep eqres cfg s1 name false) as [s2 c2]. cbn [fst snd] in *.
      split; [reflexivity|split; [exact Hi|]]. repeat (apply Forall_app; split); assumption.
    + destruct (memS name (pc_void cfg)).
      * destruct (adapter_endtag_inv deep eqres deep' eqres' s1 name false Hi1) as (He & Hi & Hc).
        rewrite <- He. destruct (adapter_endtag deep eqres cfg s1 name false) as [s2 c2]. cbn [fst snd] in *.
        split; [reflexivity|split; [exact Hi|]]. repeat (apply Forall_app; split); assumption.
      * split; [reflexivity|split; [exact Hi1|]]. apply Forall_app; split; assumption.
  - apply adapter_endtag_inv. exact Hinv.
  - split; [reflexivity|split; [exact Hinv|]]. cbn [fst snd]. fall; cl.
  - split; [reflexivity|split; [exact Hinv|]]. cbn [fst snd]. constructor; [pose proof (d_end_data_le (ps_data s)); lia|].
    fall; vm_compute; lia.
Qed.

Lemma run_callbacks_inv deep eqres deep' eqres' cbs : forall s,
  inv s ->
  run_callbacks deep eqres cfg s cbs = run_callbacks deep' eqres' cfg s cbs /\
  inv (fst (run_callbacks deep eqres cfg s cbs)) /\
  Forall (fun x => x <= 4) (snd (run_callbacks deep eqres cfg s cbs)).
Proof.
  induction cbs as [|cb rest IH]; intros s Hinv; cbn [run_callbacks].
  - split; [reflexivity|split; [exact Hinv|constructor]].
  - destruct (step_inv deep eqres deep' eqres' s cb Hinv) as (He & Hi & Hc).
    rewrite <- He. destruct (step deep eqres cfg s cb) as [s1 c1]. cbn [fst snd] in *.
    destruct (IH s1 Hi) as (He2 & Hi2 & Hc2).
    rewrite <- He2. destruct (run_callbacks deep eqres cfg s1 rest) as [s2 c2]. cbn [fst snd] in *.
    split; [reflexivity|split; [exact Hi2|]]. apply Forall_app; split; assumption.
Qed.

Lemma pop_all_inv deep eqres deep' eqres' fuel : forall s,
  inv s ->
  pop_all deep eqres fuel s = pop_all deep' eqres' fuel s /\
  Forall (fun x => x <= 2) (pop_all deep eqres fuel s).
Proof.
  induction fuel as [|f IH]; intros s Hinv; cbn [pop_all]; [split; [reflexivity|constructor]|].
  destruct (ps_stack s) eqn:Est; [split; [reflexivity|constructor]|].
  rewrite (pop_tag_inv deep eqres s Hinv), (pop_tag_inv deep' eqres' s Hinv).
  pose proof (pop_result_inv s Hinv) as Hi'. pose proof (pop_result_calls s) as Hc.
  destruct (pop_result s) as [s' c]. cbn [fst snd] in *.
  destruct (IH s' Hi') as (He & Hb). rewrite <- He. split; [reflexivity|].
  constructor; [apply fr_le; exact Hc|exact Hb].
Qed.

Lemma d_feed_inv deep eqres deep' eqres' cbs :
  d_feed deep eqres cfg cbs = d_feed deep' eqres' cfg cbs /\ d_feed deep eqres cfg cbs <= 5.
Proof.
  unfold d_feed.
  destruct (run_callbacks_inv deep eqres deep' eqres' cbs ps0 inv_ps0) as (He & Hi & Hc).
  rewrite <- He. destruct (run_callbacks deep eqres cfg ps0 cbs) as [s calls]. cbn [fst snd] in *.
  assert (Hcd : inv (clear_data s)) by exact Hi.
  destruct (pop_all_inv deep eqres deep' eqres' (length (ps_stack s)) (clear_data s) Hcd) as (Hp & Hpb).
  rewrite <- Hp. split; [reflexivity|].
  apply fr_le. apply Forall_app; split; [exact Hc|].
  apply Forall_app; split.
  - constructor; [pose proof (d_end_data_le (ps_data s)); lia|constructor].
  - eapply Forall_le_mono; [|exact Hpb]. lia.
Qed.

Theorem parse_depth_independent_of_deep_eq deep eqres deep' eqres' markup cbs :
  d_parse deep eqres cfg markup cbs = d_parse deep' eqres' cfg markup cbs.
Proof.
  unfold d_parse. destruct (d_feed_inv deep eqres deep' eqres' cbs) as [He _]. now rewrite He.
Qed.

Theorem parse_depth_bounded deep eqres markup cbs : d_parse deep eqres cfg markup cbs <= 6.
Proof.
  unfold d_parse. destruct (d_feed_inv deep eqres deep eqres cbs) as [_ Hb].
  apply fr_le. apply Forall_app; split; [fall; (cbn [fst snd]; cl)|].
  apply Forall_app; split; [destruct (short_plain markup); fall; (cbn [fst snd]; cl)|].
  constructor; [vm_compute; lia|]. constructor; [exact Hb|constructor].
Qed.

Theorem setstate_depth_bounded deep eqres cbs : d_setstate deep eqres cfg cbs <= 6.
Proof.
  unfold d_setstate. destruct (d_feed_inv deep eqres deep eqres cbs) as [_ Hb].
  apply fr_le. constructor; [vm_compute; lia|]. constructor; [exact Hb|constructor].
Qed.

(* every structural comparison popTag makes, along any run of callbacks, costs one frame *)
Theorem poptag_eq_one_frame deep eqres cbs :
  let s := fst (run_callbacks deep eqres cfg ps0 cbs) in
  inv s /\ pop_tag deep eqres s = pop_result s.
Proof.
  cbn zeta. destruct (run_callbacks_inv deep eqres deep eqres cbs ps0 inv_ps0) as (_ & Hi & _).
  split; [exact Hi|]. now apply pop_tag_inv.
Qed.

End Parse.
