(* C06 — the adapter of Model/Construct.v and the adapter of Model/Adapter.v (C04 / C18) are the same function on
   what the tokenizer fires: same calls on the tree builder, in the same order, with the same text for every
   numeric and named reference; they differ only in what they keep of a start tag's attributes (Model/Adapter.v
   applies the duplicate-attribute policy, Model/Construct.v does not look at attributes: no exception and no part
   of the tree's shape depends on them).  Hence the tree of C06's string-level constructor is the tree of
   Model.TokParse.parse_string up to attributes. *)
From Coq Require Import List NArith ZArith Bool Arith Lia.
From BS Require Import Base.Sexp Base.Types Base.Reader Gen.Stdlib Model.Pos Model.Tokenizer Model.TokParse Model.Adapter
  Model.Heap Model.Edit Model.Build Model.Construct Model.ConstructStr Gen.T_C06
  Proofs.PosProofs Proofs.TokenizerProofs Proofs.TokenizerCompose Proofs.ConstructProofs Proofs.ConstructStrProofs.
Import ListNotations.
Open Scope N_scope.

(* ------------------------------------------------------------------ numbers *)
Lemma hexd_val c : is_hexd c = true -> hex_val c = Some (digit_val c).
Proof.
  unfold is_hexd, hex_val, digit_val, is_dec, is_digit, is_upper.
  destruct (N.leb_spec 48 c), (N.leb_spec c 57), (N.leb_spec 65 c), (N.leb_spec c 70), (N.leb_spec 97 c), (N.leb_spec c 102),
           (N.leb_spec c 90); cbn; intros Hyp; try discriminate; try reflexivity; try lia.
Qed.
Lemma hex_fold d : forallb is_hexd d = true -> forall a,
  fold_left (fun a c => 16 * a + match hex_val c with Some v => v | None => 0 end) d a =
  fold_left (fun a c => a * 16 + digit_val c) d a.
Proof.
  induction d as [|c d IH]; intros H a; cbn [fold_left]; [reflexivity|].
  cbn [forallb] in H. apply andb_prop in H as [H1 H2]. rewrite (hexd_val c H1), (IH H2). f_equal. lia.
Qed.
Lemma hex_value_num d : forallb is_hexd d = true -> hex_value d = num_of 16 d.
Proof. intros H. unfold hex_value, num_of. now apply hex_fold. Qed.
Lemma dec_fold d : forallb is_digit d = true -> forall a,
  fold_left (fun a c => 10 * a + (c - 48)) d a = fold_left (fun a c => a * 10 + digit_val c) d a.
Proof.
  induction d as [|c d IH]; intros H a; cbn [fold_left]; [reflexivity|].
  cbn [forallb] in H. apply andb_prop in H as [H1 H2]. rewrite (IH H2). f_equal. unfold digit_val. rewrite H1. lia.
Qed.
Lemma dec_value_num d : forallb is_digit d = true -> dec_value d = num_of 10 d.
Proof. intros H. unfold dec_value, num_of. now apply dec_fold. Qed.

(* the number this property's model computes is the adapter model's, or both are beyond the code space *)
Lemma number_agrees name v : Adapter.charref_value name = Some v ->
  exists n, charref_number name = Done n /\ (n = v \/ (1114112 <= n /\ 1114112 <= v)).
Proof.
  unfold Adapter.charref_value, charref_number. destruct name as [|c r]; [discriminate|].
  rewrite hex_prefixes_table. cbn [memN existsb].
  assert (HX : forall x, nonempty_all is_hexd (lstrip_char x (x :: r)) = true ->
               py_int_hex (Construct.lstrip x (x :: r)) = Done (num_of 16 (lstrip_char x (x :: r)))).
  { intros x. change (Construct.lstrip x (x :: r)) with (lstrip_char x (x :: r)). unfold nonempty_all, py_int_hex.
    destruct (lstrip_char x (x :: r)) as [|y t]; [discriminate|]. intros H.
    rewrite (forallb_imp _ _ _ is_hexd_hex H), (hex_value_num _ H). reflexivity. }
  destruct (c =? 120) eqn:E1.
  - apply N.eqb_eq in E1. subst c. cbn [orb].
    destruct (nonempty_all is_hexd (lstrip_char 120 (120 :: r))) eqn:E; [|discriminate]. intros X; inversion X; subst.
    eexists. split; [apply HX; exact E | left; reflexivity].
  - destruct (c =? 88) eqn:E2.
    + apply N.eqb_eq in E2. subst c. cbn [orb].
      destruct (nonempty_all is_hexd (lstrip_char 88 (88 :: r))) eqn:E; [|discriminate]. intros X; inversion X; subst.
      eexists. split; [apply HX; exact E | left; reflexivity].
    + cbn [orb]. destruct (nonempty_all is_digit (c :: r)) eqn:E; [|discriminate]. intros X; inversion X; subst.
      destruct (charref_decimal_valid (c :: r)) as [n [Hn Hv]]; [discriminate | exact E |].
      exists n. split; [exact Hn|]. cbn [nonempty_all] in E. rewrite (dec_value_num _ E) in Hv. exact Hv.
Qed.

(* ------------------------------------------------------------------ text *)
Lemma repl_table : c06_replacement_char = 65533.
Proof. reflexivity. Qed.

Lemma text_agrees n : charref_text None n = Done (Adapter.charref_data None n).
Proof.
  unfold Adapter.charref_data. destruct (N.ltb_spec n 256) as [L|L].
  - rewrite (charref_text_small None n L decoder_caught_none). f_equal. unfold small_text, cp1252_decoder, decode_cp1252.
    replace (n <? 1114112) with true by (symmetry; apply N.ltb_lt; lia).
    destruct (nth_error cp1252_table (N.to_nat n)) as [[x|]|] eqn:E.
    + rewrite (nth_error_nth _ _ None E). reflexivity.
    + rewrite (nth_error_nth _ _ None E). reflexivity.
    + apply nth_error_None in E. rewrite (nth_overflow _ None E). reflexivity.
  - destruct (N.ltb_spec n 1114112) as [M|M].
    + rewrite charref_text_mid by lia. reflexivity.
    + rewrite charref_text_big by lia. rewrite repl_table. reflexivity.
Qed.

Lemma big_text v : 1114112 <= v -> Adapter.charref_data None v = [65533].
Proof.
  intros H. unfold Adapter.charref_data.
  replace (v <? 256) with false by (symmetry; apply N.ltb_ge; lia).
  replace (v <? 1114112) with false by (symmetry; apply N.ltb_ge; lia). reflexivity.
Qed.

(* handle_charref: the two models produce the same text for every name int() accepts *)
Theorem charref_models_agree : forall name v, Adapter.charref_value name = Some v ->
  Construct.charref_data None name = Done (Adapter.charref_data None v).
Proof.
  intros name v H. unfold Construct.charref_data. destruct (number_agrees name v H) as [n [-> [-> | [A B]]]].
  - apply text_agrees.
  - rewrite charref_text_big by exact A. rewrite big_text by exact B. rewrite repl_table. reflexivity.
Qed.

(* ------------------------------------------------------------------ one callback, the whole stream *)
Definition strip (e : event) : event := match e with EStart n p _ => EStart n p [] | _ => e end.
Definition strips (o : list out) : list event := map strip (events_of o).

Lemma remove_first_eq n l : Adapter.remove_first n l = Construct.remove_first n l.
Proof. induction l as [|x l IH]; cbn; [reflexivity|]. destruct (str_eqb n x); [reflexivity | now rewrite IH]. Qed.
Lemma starts_with_eq p s : Adapter.starts_with p s = Construct.starts_with p s.
Proof. revert s. induction p as [|x p IH]; destruct s as [|y s]; cbn; auto; try (now rewrite IH). Qed.
Lemma upper_eq s : ascii_upper s = map upper_ascii s.
Proof. reflexivity. Qed.

Lemma step_agrees cfg ac p e : a_orig cfg = None -> tev_ok e ->
  exists o1 ac1 evs1, adapter_step cfg ac (hev_of p e) = Some (o1, ac1) /\
                      cb_step (a_b cfg) None ac (cb_of_tev e) = Done (evs1, ac1) /\
                      strips o1 = map strip evs1.
Proof.
  intros Ho Hok. unfold adapter_step. destruct e; cbn [hev_of cb_of_tev adapter_step_gen cb_step].
  - unfold start_tag, cb_starttag, end_tag. cbn [andb]. destruct (can_be_empty (a_b cfg) name && true); do 3 eexists; repeat split; reflexivity.
  - unfold start_tag, cb_starttag, end_tag, cb_endtag. rewrite andb_false_r. cbn [andb]. do 3 eexists. repeat split; reflexivity.
  - unfold end_tag, cb_endtag. cbn [andb]. rewrite remove_first_eq. destruct (memS name ac); do 3 eexists; repeat split; reflexivity.
  - do 3 eexists. repeat split; reflexivity.
  - cbn in Hok. destruct (Adapter.charref_value name) as [v|] eqn:E; [|congruence].
    rewrite (charref_models_agree name v E), Ho. do 3 eexists. repeat split; reflexivity.
  - do 3 eexists. repeat split; reflexivity.
  - do 3 eexists. repeat split; reflexivity.
  - do 3 eexists. repeat split; reflexivity.
  - rewrite starts_with_eq, upper_eq. fold cdata_prefix.
    change s_cdata_open with cdata_prefix.
    destruct (Construct.starts_with cdata_prefix (map upper_ascii s)); do 3 eexists; repeat split; reflexivity.
  - do 3 eexists. repeat split; reflexivity.
Qed.

Lemma run_agrees cfg : a_orig cfg = None -> forall (pes : list (pos * tev)) ac, Forall tev_ok (map snd pes) ->
  exists o ac1 evs, adapter_run cfg ac (map (fun pe => hev_of (fst pe) (snd pe)) pes) = (o, ac1, true) /\
                    adapt (a_b cfg) None ac (map cb_of_tev (map snd pes)) = (evs, None) /\
                    strips o = map strip evs.
Proof.
  intros Ho. unfold adapter_run. induction pes as [|[p e] pes IH]; intros ac H; cbn [map adapter_run_gen adapt fst snd].
  - exists [], ac, []. repeat split; reflexivity.
  - cbn [map snd] in H. inversion H as [|? ? H1 H2]; subst.
    destruct (step_agrees cfg ac p e Ho H1) as (o1 & ac1 & evs1 & A & B & C).
    unfold adapter_step in A. rewrite A, B. destruct (IH ac1 H2) as (o2 & ac2 & evs2 & A2 & B2 & C2).
    rewrite A2, B2. exists (o1 ++ o2), ac2, (evs1 ++ evs2). split; [reflexivity|]. split; [reflexivity|].
    unfold strips, events_of in *. rewrite !map_app. f_equal; assumption.
Qed.

Lemma items_pairs its :
  hevs_of_items its = map (fun pe => hev_of (fst pe) (snd pe)) (flat_map (fun it => map (pair (it_pos it)) (it_evs it)) its) /\
  flat_map it_evs its = map snd (flat_map (fun it => map (pair (it_pos it)) (it_evs it)) its).
Proof.
  unfold hevs_of_items. induction its as [|it its [IH1 IH2]]; cbn [flat_map]; [split; reflexivity|].
  rewrite !map_app, IH1, IH2, !map_map. cbn [fst snd]. split; [reflexivity|]. now rewrite map_id.
Qed.

(* for every text html.unescape does not fail on: the calls this property's adapter makes on the tree builder are the
   calls of Model/Adapter.v (the model behind Model.TokParse.parse_string, C04, C18), attributes aside *)
Theorem str_events_are_adapter_events : forall cfg unesc text, a_orig cfg = None ->
  str_unescape_failed unesc text = false ->
  exists o ac, adapter_run cfg [] (callbacks (marking unesc) text) = (o, ac, true) /\
               map strip (str_events (a_b cfg) unesc text) = strips o.
Proof.
  intros cfg u text Ho. unfold str_unescape_failed, str_events, str_callbacks, str_run, callbacks.
  pose proof (tok_tevs_ok (marking u) text) as OK.
  destruct (tokenize (marking u) text) as [its g]. cbn [fst] in OK. cbn [fst].
  destruct (items_pairs its) as [E1 E2]. rewrite E1.
  assert (NC : forall evs, snd (cut_at_raise evs) = false -> fst (cut_at_raise evs) = evs).
  { induction evs as [|e r IH]; cbn [cut_at_raise]; [reflexivity|]. destruct (tev_raises e); [discriminate|].
    destruct (cut_at_raise r) as [b raised]. cbn [fst snd] in *. intros H. now rewrite (IH H). }
  destruct (cut_at_raise (flat_map it_evs its)) as [b raised] eqn:C. cbn [fst snd]. intros ->.
  pose proof (NC (flat_map it_evs its)) as N. rewrite C in N. cbn [fst snd] in N. rewrite (N eq_refl), E2.
  rewrite E2 in OK.
  destruct (run_agrees cfg Ho _ [] OK) as (o & ac & evs & A & B & Cs).
  exists o, ac. split; [exact A|]. rewrite Cs. exact (f_equal (fun x => map strip (fst x)) B).
Qed.
