(* C01 / C02 / C03 — the parser's result is a consistent state in the sense of Proofs/EditRep.v, hence stays one under
   every finite history of admissible editing calls, and in a consistent state every live element sits in a tree for
   which [rep1] holds (the premise of the view theorems of Proofs/Views.v). *)
From Coq Require Import List NArith ZArith Bool Arith Lia Permutation.
From BS Require Import Base.Sexp Base.Types Model.Heap Model.Edit Model.EditOps Model.Build Spec.Tree Spec.BuildSpec
  Proofs.HeapBasics Proofs.InsertRep Proofs.EditFrames Proofs.EditRep Proofs.BuildRefines Proofs.ParseRep.
Import ListNotations.
Local Open Scope nat_scope.

(* ------------------------------------------------------------------------------------------ *)
(* the static fields (kind, text, dead) are written by alloc only: no operation of Model/Build.v touches them *)
Lemma meta_setup h x p q y : meta (setup h x p q y) = meta (h y).
Proof.
  unfold setup. cbv zeta.
  repeat match goal with
  | |- context [match ?e with Some _ => _ | None => _ end] => destruct e
  end; autorewrite with heap; reflexivity.
Qed.

Lemma meta_fixer_walk fuel : forall h t d c y, meta (fixer_walk fuel h t d c y) = meta (h y).
Proof.
  induction fuel as [|f IH]; intros h t d c y; cbn [fixer_walk]; [reflexivity|].
  destruct t as [t|]; [|reflexivity]. destruct (ns (h t)); [|apply IH].
  now autorewrite with heap.
Qed.

Lemma meta_linkage_fixer fuel h el y : meta (linkage_fixer fuel h el y) = meta (h y).
Proof.
  unfold linkage_fixer. destruct (kids (h el)) as [|first ks]; [reflexivity|].
  destruct (last_opt (first :: ks)) as [child|]; [|reflexivity]. cbv zeta.
  rewrite meta_fixer_walk. autorewrite with heap.
  destruct (Nat.eqb child first && _); [|reflexivity].
  autorewrite with heap.
  repeat match goal with
  | |- context [match ?e with Some _ => _ | None => _ end] => destruct e
  | |- context [if ?b then _ else _] => destruct b
  end; autorewrite with heap; reflexivity.
Qed.

(* the root object exists and is the BeautifulSoup object; nothing has been decomposed *)
Definition sstat (s : st) : Prop :=
  1 <= nxt s /\ kind (hp s 0) = KSoup /\ forall x, dead (hp s x) = false.

Lemma sstat_alloc s k t : sstat s -> sstat (fst (alloc s k t)).
Proof.
  intros (H1 & H2 & H3). unfold alloc, sstat. cbn [fst hp nxt]. split; [lia|]. split.
  - rewrite upd_other by lia. exact H2.
  - intros x. unfold upd. destruct (Nat.eqb x (nxt s)); [reflexivity|apply H3].
Qed.

Lemma sstat_meta s h' : sstat s -> (forall y, meta (h' y) = meta (hp s y)) -> sstat (with_heap s h').
Proof.
  intros (H1 & H2 & H3) Hm. unfold sstat, with_heap. cbn [hp nxt]. split; [exact H1|]. split.
  - now rewrite (meta_kind _ _ (Hm 0)).
  - intros x. now rewrite (meta_dead _ _ (Hm x)).
Qed.

Lemma sstat_end_data cfg b cls : sstat (b_st b) -> sstat (b_st (end_data cfg b cls)).
Proof.
  intros H. unfold end_data. destruct (b_data b) as [|c cs]; [exact H|].
  cbv zeta. set (k := KStr _). unfold alloc.
  match goal with |- context [blank k ?t] => set (text := t) end.
  pose proof (sstat_alloc (b_st b) k text H) as Ha.
  unfold alloc in *. cbn [fst] in Ha. unfold object_was_parsed.
  cbn [b_cur b_st b_mre b_pay b_stack b_counter b_pws b_scs b_data].
  destruct (b_cur b) as [parent|]; cbn [b_st]; [|exact Ha].
  apply (sstat_meta _ _ Ha). intros y. cbn [hp].
  destruct (ne _); [rewrite meta_linkage_fixer|]; autorewrite with heap; apply meta_setup.
Qed.

Lemma sstat_start_body cfg b name prefix attrs : sstat (b_st b) -> sstat (b_st (start_body cfg b name prefix attrs)).
Proof.
  intros H. pose proof (sstat_alloc (b_st b) KTag name H) as Ha.
  unfold start_body, alloc, push_tag in *. cbn [fst] in Ha.
  cbn [b_cur b_st b_mre b_pay b_stack b_counter b_pws b_scs b_data].
  apply (sstat_meta _ _ Ha). intros y. unfold with_heap. cbn [hp nxt].
  destruct (b_cur b); destruct (b_mre b); autorewrite with heap; apply meta_setup.
Qed.

Lemma pop_loop_st name prefix : forall n b, b_st (pop_loop n b name prefix) = b_st b.
Proof.
  induction n as [|n IH]; intros b; cbn [pop_loop]; [reflexivity|].
  destruct (cget name (b_counter b)); [|reflexivity]. destruct (Z.eqb _ 0); [reflexivity|].
  destruct (b_stack b); [reflexivity|].
  destruct (_ && _); [apply pop_tag_st|]. rewrite IH. apply pop_tag_st.
Qed.

Lemma pop_to_tag_st cfg b name prefix : b_st (pop_to_tag cfg b name prefix) = b_st b.
Proof. unfold pop_to_tag. destruct (_ && _); [reflexivity|apply pop_loop_st]. Qed.

Lemma sstat_step cfg b e : sstat (b_st b) -> sstat (b_st (step_event cfg b e)).
Proof.
  intros H. destruct e as [name prefix attrs|name prefix|t|c]; cbn [step_event].
  - rewrite handle_starttag_body. now apply sstat_start_body, sstat_end_data.
  - unfold handle_endtag. rewrite pop_to_tag_st. now apply sstat_end_data.
  - exact H.
  - now apply sstat_end_data.
Qed.

Lemma sstat_fold cfg evs : forall b, sstat (b_st b) -> sstat (b_st (fold_left (step_event cfg) evs b)).
Proof.
  induction evs as [|e evs IH]; intros b H; [exact H|]. cbn [fold_left]. apply IH. now apply sstat_step.
Qed.

Lemma sstat_reset cfg : sstat (b_st (reset cfg)).
Proof.
  unfold reset, alloc, push_tag, with_heap, sstat.
  cbn [b_cur b_st b_mre b_pay b_stack b_counter b_pws b_scs b_data hp nxt].
  split; [lia|]. split; [now rewrite upd_same|].
  intros x. unfold upd. destruct (Nat.eqb x 0); reflexivity.
Qed.

(* in a parsed heap the root object has kind KSoup and no cell is dead *)
Theorem parse_static : forall cfg evs,
  let s := b_st (feed cfg evs) in
  1 <= nxt s /\ kind (hp s 0) = KSoup /\ forall x, dead (hp s x) = false.
Proof.
  intros cfg evs s. unfold s, feed. cbv zeta.
  destruct (pop_all_st cfg (length (b_stack (end_data cfg (fold_left (step_event cfg) evs (reset cfg)) None)))
              (end_data cfg (fold_left (step_event cfg) evs (reset cfg)) None)) as [-> _].
  apply sstat_end_data, sstat_fold, sstat_reset.
Qed.

(* ------------------------------------------------------------------------------------------ *)
(* the parser's result is a consistent state in the sense of Proofs/EditRep.v *)
Theorem parse_consistent : forall cfg evs, consistent (b_st (feed cfg evs)).
Proof.
  intros cfg evs. destruct (parse_rep cfg evs) as (T & Hr & Hp & Hrep).
  destruct (parse_static cfg evs) as (Hn & Hk & Hd).
  exists [(T, false)]. unfold cons_with.
  assert (Ef : fids [(T, false)] = seq 0 (nxt (b_st (feed cfg evs))))
    by (unfold fids; cbn [flat_map fst]; now rewrite app_nil_r).
  split; [exact Hrep|]. rewrite Ef. split; [|split; [|split]].
  - intros x Hx. apply in_seq in Hx. lia.
  - intros x Hx _. apply in_seq. lia.
  - intros x _. apply Hd.
  - intros T' [E|[]]. inversion E; subst T'. now rewrite Hr.
Qed.

(* hence: after parsing ANY event sequence and applying ANY finite history of admissible editing calls, the heap is a
   consistent forest *)
Theorem parse_then_edit_consistent : forall cfg evs ops, consistent (run_history (b_st (feed cfg evs)) ops).
Proof. intros cfg evs ops. apply history_consistent, parse_consistent. Qed.

(* and in such a state every live element sits in exactly one tree T of a represented forest, i.e. rep1 holds for its
   tree, which is the premise of all the view theorems of Proofs/Views.v *)
Theorem consistent_views_premise : forall s x, consistent s -> live s x ->
  exists F T b, cons_with F s /\ In (T, b) F /\ In x (pre T) /\ rep1 (hp s) T b.
Proof.
  intros s x [F C] L. destruct (live_tree F s x C L) as (T & b & F1 & _ & Hx & Hr & C').
  exists ((T, b) :: F1), T, b. split; [exact C'|]. split; [now left|]. split; assumption.
Qed.

Print Assumptions parse_static.
Print Assumptions parse_consistent.
Print Assumptions parse_then_edit_consistent.
Print Assumptions consistent_views_premise.
