(* C04 — the wider writer sub-grammar (Spec/DocWrite.v [wider_doc]): attribute values may contain references; the text
   stands for the document whose attribute values are html.unescape of the written ones.  Nothing is assumed of unesc. *)
From Coq Require Import List NArith Bool Arith Lia.
From BS Require Import Base.Sexp Base.Types Base.Reader Model.Attrs Model.Build Model.Adapter Model.Pos
                       Spec.BuildSpec Spec.DocSpec Spec.DocWrite Proofs.PosProofs Proofs.AdapterProofs Proofs.AdapterCompose
                       Model.Tokenizer Model.TokParse Proofs.TokenizerProofs Proofs.TokenizerBridge Proofs.RenderTokProofs.
Import ListNotations.
Open Scope N_scope.

Section Wider.
Variable unesc : str -> str.

Definition utok (t : wtok) : wtok :=
  match t with
  | WCons src [TStart n a] => WCons src [TStart n (uv unesc a)]
  | WCons src [TStartEnd n a] => WCons src [TStartEnd n (uv unesc a)]
  | WRaw n a a' s => WRaw n a (uv unesc a') s
  | _ => t
  end.
Lemma utok_src t : tok_src (utok t) = tok_src t.
Proof. destruct t as [s|src evs|n a a' s]; try reflexivity. destruct evs as [|e r]; [reflexivity|]. destruct e; destruct r; reflexivity. Qed.
Lemma utok_srcs l : srcs (map utok l) = srcs l.
Proof. unfold srcs. rewrite map_map. f_equal. apply map_ext. apply utok_src. Qed.
Lemma utok_kind t : match utok t, t with WText _, WText _ | WCons _ _, WCons _ _ | WRaw _ _ _ _, WRaw _ _ _ _ => True | _, _ => False end.
Proof. destruct t as [s|src evs|n a a' s]; try exact I. destruct evs as [|e r]; [exact I|]. destruct e; destruct r; exact I. Qed.
Lemma utok_noadj l : no_adj_text (map utok l) = no_adj_text l.
Proof.
  induction l as [|t r IH]; [reflexivity|]. cbn [map]. pose proof (utok_kind t) as K.
  destruct t as [s|src evs|n a a' s]; destruct (utok _) eqn:E; try contradiction; cbn [no_adj_text]; try exact IH.
  destruct r as [|t2 r2]; [reflexivity|]. cbn [map] in *. pose proof (utok_kind t2) as K2.
  destruct t2 as [s2|src2 evs2|n2 a2 a2' s2]; destruct (utok _) eqn:E2; try contradiction; cbn [no_adj_text] in *; try reflexivity; exact IH.
Qed.
Lemma map_flat_map {A B C} (f : B -> C) (g : A -> list B) l : map f (flat_map g l) = flat_map (fun x => map f (g x)) l.
Proof. induction l as [|x l IH]; [reflexivity|]. cbn [flat_map]. now rewrite map_app, IH. Qed.

Lemma wider_node_toks d : wider_node d = true -> Forall (tok_ok unesc) (map utok (toks_node d)).
Proof.
  induction d as [d Hl|n a p kids IH] using dnode_ind'.
  - destruct d; try contradiction; cbn [wider_node simple_node toks_node map utok]; intros H.
    + constructor; [|constructor]. destruct s; [discriminate|]. split; [discriminate|exact H].
    + constructor; [|constructor]. now apply tok_ok_charref.
    + constructor; [|constructor]. destruct name as [|c r]; [discriminate|].
      apply andb_prop in H as [H1 H2]. now apply tok_ok_entity.
    + constructor; [|constructor]. now apply tok_ok_comment.
    + constructor; [|constructor]. apply andb_prop in H as [H1 H2]. apply tok_ok_doctype; [|exact H2].
      apply orb_prop in H1 as [E|E]; apply str_eqb_eq in E; auto.
    + constructor; [|constructor]. apply andb_prop in H as [H1 H2]. apply tok_ok_cdata; [|exact H2].
      apply orb_prop in H1 as [E|E]; apply str_eqb_eq in E; auto.
    + discriminate.
    + constructor; [|constructor]. now apply tok_ok_pi.
    + apply andb_prop in H as [H1 H2]. apply simple_name_ok in H1.
      destruct sp; cbn [toks_node map utok].
      * constructor; [exact (tok_ok_start_gen unesc name attrs H1 H2)|constructor].
      * constructor; [exact (tok_ok_self_gen unesc name attrs H1 H2)|constructor].
      * constructor; [exact (tok_ok_start_gen unesc name attrs H1 H2)|constructor; [exact (tok_ok_end unesc name H1)|constructor]].
    + apply andb_prop in H as [H1 H2]. apply simple_name_ok in H1.
      constructor; [|constructor]. exact (tok_ok_self_gen unesc name attrs H1 H2).
  - cbn [wider_node toks_node]. cbv zeta. intros H. destruct (memS n cdata_content_elements) eqn:CD.
    + apply andb_prop in H as [H H3]. apply andb_prop in H as [H1 H2]. apply raw_name_lname in H1.
      destruct kids as [|k1 kids']; [constructor; [|constructor]; exact (raw_step_ok_gen unesc n a [] H1 CD H2 eq_refl)|].
      destruct k1; try discriminate. destruct s as [|c s']; [discriminate|]. destruct kids'; [|discriminate].
      constructor; [|constructor]. exact (raw_step_ok_gen unesc n a (c :: s') H1 CD H2 H3).
    + apply andb_prop in H as [H H3]. apply andb_prop in H as [H1 H2]. apply simple_name_ok in H1.
      cbn [map utok]. constructor; [exact (tok_ok_start_gen unesc n a H1 H2)|].
      rewrite map_app. apply Forall_app. split; [|constructor; [exact (tok_ok_end unesc n H1)|constructor]].
      rewrite map_flat_map.
      clear -IH H3. induction IH as [|k l Hk Hl IHl]; cbn [flat_map]; [constructor|].
      cbn [forallb] in H3. apply andb_prop in H3 as [K1 K2]. apply Forall_app. split; auto.
Qed.

Lemma utok_evs d : wider_node d = true ->
  flat_map tok_evs (map utok (toks_node d)) = flat_map tok_evs (toks_node (udoc_node unesc d)).
Proof.
  induction d as [d Hl|n a p kids IH] using dnode_ind'.
  - intros _. destruct d; try contradiction; try reflexivity. destruct sp; reflexivity.
  - cbn [wider_node toks_node udoc_node]. cbv zeta. intros H. destruct (memS n cdata_content_elements).
    + apply andb_prop in H as [H H3]. apply andb_prop in H as [H1 H2].
      destruct kids as [|k1 kids']; [reflexivity|].
      destruct k1; try discriminate. destruct s as [|c s']; [discriminate|]. destruct kids'; [reflexivity|discriminate].
    + apply andb_prop in H as [H H3]. apply andb_prop in H as [H1 H2].
      cbn [map utok flat_map tok_evs app]. f_equal. rewrite map_app, !flat_map_app. f_equal.
      rewrite map_flat_map. clear -IH H3. induction IH as [|k l Hk Hl IHl]; [reflexivity|].
      cbn [forallb] in H3. apply andb_prop in H3 as [K1 K2].
      cbn [flat_map map]. rewrite !flat_map_app, (Hk K1), (IHl K2). reflexivity.
Qed.

Theorem tokenize_wider doc : wider_doc doc = true ->
  exists its g, tokenize unesc (write doc) = (its, g) /\ flat_map it_evs its = tevs_of (udoc unesc doc) /\
                gs_status g = Running /\ gs_rest g = [] /\ gs_cd g = None.
Proof.
  unfold wider_doc. intros H. apply andb_prop in H as [H1 H2].
  assert (Forall (tok_ok unesc) (map utok (toks_of doc))) as OK.
  { unfold toks_of. rewrite map_flat_map. clear H2. induction doc as [|d doc IH]; cbn [flat_map forallb] in *; [constructor|].
    apply andb_prop in H1 as [K1 K2]. apply Forall_app. split; [now apply wider_node_toks|auto]. }
  destruct (tokenize_toks unesc (map utok (toks_of doc)) OK ltac:(rewrite utok_noadj; exact H2)) as (its & g & T & E & S).
  rewrite utok_srcs in T. exists its, g. split; [exact T|]. split; [|exact S].
  rewrite E. unfold tevs_of, toks_of, udoc. rewrite map_flat_map. clear -H1. induction doc as [|d doc IH]; [reflexivity|].
  cbn [forallb] in H1. apply andb_prop in H1 as [K1 K2].
  cbn [flat_map map]. rewrite !flat_map_app, (IH K2), (utok_evs d K1). reflexivity.
Qed.

Theorem wider_string_tree cfg doc : wider_doc doc = true -> wf_doc cfg (udoc unesc doc) = true ->
  rejected unesc (write doc) = false /\
  spec_run (a_b cfg) (adapted cfg (callbacks unesc (write doc))) = flat (a_b cfg) (expect cfg (udoc unesc doc)) /\
  heap_is (parse_string cfg unesc (write doc)) (flat (a_b cfg) (expect cfg (udoc unesc doc))).
Proof.
  intros Hs Hw. destruct (tokenize_wider doc Hs) as (its & g & T & E & S1 & S2 & S3).
  assert (adapted cfg (callbacks unesc (write doc)) = adapted cfg (hevents_of (udoc unesc doc))) as EA.
  { unfold callbacks, adapted. rewrite T. cbn [fst]. unfold adapter_run.
    rewrite <- (run_repos false cfg (0, 0) (hevs_of_items its)), <- (run_repos false cfg (0, 0) (hevents_of (udoc unesc doc))).
    rewrite hevs_repos, E, tevs_hevents. reflexivity. }
  split; [unfold rejected; rewrite T; cbn [snd]; now rewrite S1|]. split.
  - rewrite EA. exact (document_tree cfg _ Hw).
  - unfold parse_string. rewrite parse_feed, EA, <- parse_feed. exact (document_heap cfg _ Hw).
Qed.
End Wider.
