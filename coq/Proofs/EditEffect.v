(* C02 — the heap-level editing calls of Model/Edit.v compute, on the child list of the receiving tag,
   exactly the list-level functions of Spec/ListEdit.v ([kmove_all], [kbefore], [kafter], [kreplace]);
   composed with Proofs/ListEditProofs.v this gives the documented effect ([splice_spec], [before_spec],
   [after_spec], [replace_spec]) of the model of the code itself.  Also: nothing else moves. *)
From Coq Require Import List Arith Bool Lia Permutation.
From BS Require Import Base.Sexp Model.Heap Model.Iter Model.Edit Model.EditOps Spec.Tree Spec.ListEdit
  Proofs.HeapBasics Proofs.EditFrames Proofs.EditBase Proofs.EditRep Proofs.ListEditProofs.
Import ListNotations.

(* arguments that are existing, non-BeautifulSoup elements; cs = their ids *)
Definition nonsoups (s : st) (cs : list nat) : Prop := Forall (fun c => kind (hp s c) <> KSoup) cs.
Definition elem_args (s : st) (args : list arg) (cs : list nat) : Prop :=
  args = map AEl cs /\ NoDup cs /\ Forall (fun c => kind (hp s c) <> KSoup) cs.

(* ------------------------------------------------------------------------------------------ *)
(* one step                                                                                   *)
(* ------------------------------------------------------------------------------------------ *)

Lemma not_kid s q c : consistent s -> live s q -> par (hp s c) <> Some q -> ~ In c (kids (hp s q)).
Proof. intros C L N Hin. destruct (kids_facts s q c C L Hin) as [_ P]. congruence. Qed.

(* extract() takes the element out of its parent's child list and touches no other child list *)
Lemma extract_kids_at s c q : consistent s -> live s q -> live s c ->
  kids (extract (fuel_of s) (hp s) c q) = kremove c (kids (hp s q)).
Proof.
  intros C Lq Lc. rewrite extract_kids. unfold kremove.
  assert (Hout : par (hp s c) <> Some q -> index_of c (kids (hp s q)) = None).
  { intros N. apply index_of_notin. now apply not_kid. }
  destruct (par (hp s c)) as [p|] eqn:P.
  - destruct (parent_facts s c p C Lc P) as (_ & _ & Hin). destruct (index_of_In _ _ Hin) as (i & Ei). rewrite Ei.
    destruct (Nat.eqb_spec q p) as [->|N]; [now rewrite Ei|]. rewrite Hout by congruence. reflexivity.
  - rewrite Hout by discriminate. reflexivity.
Qed.

(* _insert does to the child list of the destination what [kmove] says *)
Lemma insert1_kids_dest s d pos c h' :
  consistent s -> live s d -> live s c ->
  insert1 (fuel_of s) (hp s) d pos c = Some h' ->
  kids (h' d) = kmove pos c (kids (hp s d)).
Proof.
  intros C Ld Lc H. rewrite insert1_eq in H. destruct (Nat.eqb c d); [discriminate|]. cbv zeta in H.
  unfold kmove. cbv zeta.
  remember (kids (hp s d)) as K eqn:EK. remember (Nat.min pos (length K)) as p0 eqn:Ep0.
  assert (Hout : par (hp s c) <> Some d -> index_of c K = None).
  { intros N. apply index_of_notin. rewrite EK. now apply not_kid. }
  destruct (par (hp s c)) as [p|] eqn:P.
  - destruct (Nat.eqb_spec p d) as [->|Npd].
    + destruct (parent_facts s c d C Lc P) as (_ & _ & Hin). rewrite <- EK in Hin.
      destruct (index_of_In _ _ Hin) as (cur & Ecur). rewrite Ecur in H |- *.
      assert (Kx : kids (extract (fuel_of s) (hp s) c d) = remove_at cur K).
      { rewrite extract_kids, P, <- EK, Ecur, Nat.eqb_refl. reflexivity. }
      destruct (Nat.ltb cur p0).
      * injection H as <-. now rewrite ins_tail_kids, Nat.eqb_refl, Kx.
      * destruct (Nat.eqb cur p0); injection H as <-; [now rewrite <- EK|].
        now rewrite ins_tail_kids, Nat.eqb_refl, Kx.
    + injection H as <-. rewrite ins_tail_kids, Nat.eqb_refl, Hout by congruence.
      rewrite extract_kids, P. destruct (index_of c (kids (hp s p))); [|now rewrite <- EK].
      apply not_eq_sym in Npd. apply Nat.eqb_neq in Npd. now rewrite Npd, <- EK.
  - injection H as <-. rewrite ins_tail_kids, Nat.eqb_refl, Hout by discriminate. now rewrite <- EK.
Qed.

(* ... and only takes the moved element out of every other child list *)
Lemma insert1_kids_other s d pos c h' q :
  consistent s -> live s q -> q <> d -> live s c ->
  insert1 (fuel_of s) (hp s) d pos c = Some h' ->
  kids (h' q) = drop c (kids (hp s q)).
Proof.
  intros C Lq Nqd Lc H. rewrite insert1_eq in H. destruct (Nat.eqb c d); [discriminate|]. cbv zeta in H.
  pose proof (kids_NoDup s q C Lq) as ND.
  assert (HX : forall n, kids (ins_tail (fuel_of s) (extract (fuel_of s) (hp s) c) d n c q) = drop c (kids (hp s q))).
  { intros n. rewrite ins_tail_kids. apply Nat.eqb_neq in Nqd. rewrite Nqd.
    rewrite (extract_kids_at s c q C Lq Lc). now apply kremove_drop. }
  assert (Hout : par (hp s c) <> Some q -> drop c (kids (hp s q)) = kids (hp s q)).
  { intros N. apply drop_notin. now apply not_kid. }
  destruct (par (hp s c)) as [p|] eqn:P.
  - destruct (Nat.eqb_spec p d) as [->|Npd]; [|injection H as <-; apply HX].
    destruct (index_of c (kids (hp s d))) as [cur|]; [|injection H as <-; apply HX].
    destruct (Nat.ltb cur _); [injection H as <-; apply HX|].
    destruct (Nat.eqb cur _); injection H as <-; [|apply HX].
    symmetry. apply Hout. congruence.
  - injection H as <-. rewrite ins_tail_kids. apply Nat.eqb_neq in Nqd. rewrite Nqd.
    symmetry. apply Hout. discriminate.
Qed.

Lemma insert_arg_el s d pos c : c <> d -> kind (hp s c) <> KSoup ->
  insert_arg s d pos (AEl c) =
  match insert1 (fuel_of s) (hp s) d pos c with Some h => Ok (with_heap s h, [c]) | None => ValueError end.
Proof.
  intros N K. unfold insert_arg. apply Nat.eqb_neq in N. rewrite N.
  destruct (kind (hp s c)); try reflexivity. congruence.
Qed.

Lemma nonsoups_evo d s s' cs : evo d s s' -> Forall (live s) cs -> nonsoups s cs -> nonsoups s' cs.
Proof.
  intros E HL HK. unfold nonsoups in *. rewrite Forall_forall in *. intros c Hc.
  rewrite (evo_kind d s s' c E (proj1 (HL c Hc))). now apply HK.
Qed.

Lemma args_live s d cs : Forall (arg_ok s d) (map AEl cs) -> Forall (live s) cs.
Proof.
  intros H. rewrite Forall_forall in *. intros c Hc. apply (H (AEl c)). now apply in_map.
Qed.

(* ------------------------------------------------------------------------------------------ *)
(* Tag.insert with element arguments                                                          *)
(* ------------------------------------------------------------------------------------------ *)

Lemma insert_args_elems : forall cs s d pos s' ins,
  consistent s -> live s d -> is_tag (hp s) d = true ->
  Forall (arg_ok s d) (map AEl cs) -> nonsoups s cs ->
  insert_args s d pos (map AEl cs) = Ok (s', ins) ->
  kids (hp s' d) = kmove_all pos cs (kids (hp s d)) /\
  (forall q, live s q -> q <> d -> kids (hp s' q) = others cs (kids (hp s q))) /\
  (forall c, In c cs -> par (hp s' c) = Some d) /\ into d s s' /\ ins = cs.
Proof.
  induction cs as [|c cs IH]; intros s d pos s' ins C Ld Td HF HK H.
  - cbn in H. inversion H; subst. cbn [kmove_all]. split; [reflexivity|]. split.
    + intros q _ _. now rewrite others_nil.
    + split; [intros c []|]. split; [now apply into_refl | reflexivity].
  - cbn [map] in HF, H. inversion HF as [|? ? Ha HF']; subst. inversion HK as [|? ? Kc HK']; subst.
    destruct Ha as [Lc Nc]. assert (Ncd : c <> d) by (intros ->; apply Nc; constructor).
    destruct (move_into s d pos c C Ld Td Lc Nc (or_introl Kc)) as (h' & Hins & Hinto & Ppar & Pfr).
    cbn [insert_args] in H. rewrite (insert_arg_el s d pos c Ncd Kc), Hins in H.
    cbn [last_opt rev app] in H.
    remember (with_heap s h') as s1 eqn:Es1.
    assert (Kd1 : kids (hp s1 d) = kmove pos c (kids (hp s d))).
    { subst s1. cbn [with_heap hp]. now apply (insert1_kids_dest s d pos c h'). }
    pose proof Hinto as [E1 P1].
    pose proof (evo_consistent _ _ _ E1) as C1. pose proof (evo_live _ _ _ _ E1 Ld) as Ld1.
    assert (Td1 : is_tag (hp s1) d = true) by (rewrite (evo_tag d s s1 d E1 Ld); exact Td).
    destruct (insert_args s1 d _ (map AEl cs)) as [[s2 ins2]|] eqn:E2; [|discriminate].
    inversion H; subst s2 ins. clear H.
    destruct (IH s1 d _ s' ins2 C1 Ld1 Td1 (Forall_arg_ok_evo _ _ _ _ E1 HF')
                (nonsoups_evo d s s1 cs E1 (args_live s d cs HF') HK') E2) as (K' & O' & P' & I' & ->).
    split; [|split; [|split; [|split]]].
    + rewrite K'. cbn [kmove_all]. rewrite Kd1. reflexivity.
    + intros q Lq Nq. rewrite (O' q (evo_live _ _ _ _ E1 Lq) Nq). rewrite others_cons. f_equal.
      subst s1. cbn [with_heap hp]. now apply (insert1_kids_other s d pos c h' q).
    + intros c0 [<-|Hc0]; [|now apply P'].
      assert (Lc1 : live s1 c) by (eapply evo_live; eauto).
      assert (Pc1 : par (hp s1 c) = Some d) by (subst s1; exact Ppar).
      destruct I' as [_ P2]. destruct (P2 c (proj1 Lc1)) as [Q|Q]; rewrite Q; auto.
    + eapply into_trans; eauto.
    + reflexivity.
Qed.

Lemma wf_insert_unfold s self pos args cs :
  wf_op s (OInsert self pos args) -> elem_args s args cs ->
  live s self /\ is_tag (hp s) self = true /\ Forall (arg_ok s self) (map AEl cs) /\ nonsoups s cs /\ NoDup cs.
Proof. intros (L & T & A) (-> & ND & K). auto. Qed.

Theorem op_insert_kids : forall s self pos args cs s',
  consistent s -> wf_op s (OInsert self pos args) -> elem_args s args cs ->
  op_insert s self pos args = Ok s' ->
  kids (hp s' self) = kmove_all pos cs (kids (hp s self)).
Proof.
  intros s self pos args cs s' C W EA H. destruct (wf_insert_unfold _ _ _ _ _ W EA) as (L & T & A & K & _).
  destruct EA as (-> & _). unfold op_insert in H.
  destruct (insert_args s self pos (map AEl cs)) as [[s2 ins]|] eqn:E; [|discriminate]. inversion H; subst s2.
  apply (insert_args_elems cs s self pos s' ins C L T A K E).
Qed.

(* nothing else moves: the arguments leave their old parents, every other child list is otherwise
   unchanged, and the arguments' parent is the receiving tag *)
Theorem op_insert_frame : forall s self pos args cs s',
  consistent s -> wf_op s (OInsert self pos args) -> elem_args s args cs ->
  op_insert s self pos args = Ok s' ->
  (forall q, live s q -> q <> self ->
     kids (hp s' q) = filter (fun y => negb (mem y cs)) (kids (hp s q))) /\
  (forall c, In c cs -> par (hp s' c) = Some self) /\
  (forall y, live s y -> ~ In y cs -> par (hp s' y) = par (hp s y)).
Proof.
  intros s self pos args cs s' C W EA H. destruct (wf_insert_unfold _ _ _ _ _ W EA) as (L & T & A & K & _).
  destruct EA as (-> & _). unfold op_insert in H.
  destruct (insert_args s self pos (map AEl cs)) as [[s2 ins]|] eqn:E; [|discriminate]. inversion H; subst s2.
  destruct (insert_args_elems cs s self pos s' ins C L T A K E) as (_ & O & P & _ & _).
  split; [exact O|]. split; [exact P|].
  (* parents of the other elements: by induction along the same loop *)
  clear O P H W. revert s pos s' ins C L T A K E.
  induction cs as [|c cs IH]; intros s pos s' ins C L T A K E y Ly Hy.
  - cbn in E. inversion E; subst. reflexivity.
  - cbn [map] in A, E. inversion A as [|? ? Ha A']; subst. inversion K as [|? ? Kc K']; subst.
    destruct Ha as [Lc Nc]. assert (Ncd : c <> self) by (intros ->; apply Nc; constructor).
    destruct (move_into s self pos c C L T Lc Nc (or_introl Kc)) as (h' & Hins & Hinto & Ppar & Pfr).
    cbn [insert_args] in E. rewrite (insert_arg_el s self pos c Ncd Kc), Hins in E.
    cbn [last_opt rev app] in E. remember (with_heap s h') as s1 eqn:Es1. pose proof Hinto as [E1 _].
    destruct (insert_args s1 self _ (map AEl cs)) as [[s2 ins2]|] eqn:E2; [|discriminate].
    inversion E; subst s2 ins. clear E.
    assert (T1 : is_tag (hp s1) self = true) by (rewrite (evo_tag self s s1 self E1 L); exact T).
    rewrite (IH s1 _ s' ins2 (evo_consistent _ _ _ E1) (evo_live _ _ _ _ E1 L) T1
               (Forall_arg_ok_evo _ _ _ _ E1 A') (nonsoups_evo self s s1 cs E1 (args_live s self cs A') K') E2
               y (evo_live _ _ _ _ E1 Ly)) by (intros Hin; apply Hy; now right).
    subst s1. cbn [with_heap hp]. apply Pfr. intros ->. apply Hy. now left.
Qed.

(* the documented effect of insert *)
Corollary op_insert_documented : forall s self pos args cs s',
  consistent s -> wf_op s (OInsert self pos args) -> elem_args s args cs ->
  op_insert s self pos args = Ok s' ->
  kids (hp s' self) = splice_spec pos cs (kids (hp s self)).
Proof.
  intros s self pos args cs s' C W EA H. rewrite (op_insert_kids s self pos args cs s' C W EA H).
  destruct (wf_insert_unfold _ _ _ _ _ W EA) as (L & _ & _ & _ & ND).
  apply kmove_all_spec; [exact ND | now apply kids_NoDup].
Qed.

(* ------------------------------------------------------------------------------------------ *)
(* insert_before / insert_after                                                               *)
(* ------------------------------------------------------------------------------------------ *)

Lemma kmove_all_one pos c K : kmove_all pos [c] K = kmove pos c K.
Proof. reflexivity. Qed.

Lemma before_loop_kids : forall cs s self p s',
  consistent s -> live s self -> par (hp s self) = Some p ->
  Forall (fun a => arg_ok s p a /\ is_self self a = false) (map AEl cs) -> nonsoups s cs ->
  before_loop s self p (map AEl cs) = Ok s' ->
  kids (hp s' p) = kbefore self cs (kids (hp s p)).
Proof.
  induction cs as [|c cs IH]; intros s self p s' C Ls P HF HK H.
  - cbn in H. inversion H; subst. reflexivity.
  - cbn [map] in HF, H. inversion HF as [|? ? [Ha Hs] HF']; subst. inversion HK as [|? ? Kc HK']; subst.
    cbn [before_loop extract_arg] in H. pose proof Ha as [Lc Nc].
    pose proof (extract_evo p s c C Lc) as E1.
    destruct (parent_facts s self p C Ls P) as (Lp & Tp & _).
    remember (with_heap s (extract (fuel_of s) (hp s) c)) as s1 eqn:Es1.
    assert (K1 : kids (hp s1 p) = kremove c (kids (hp s p))).
    { subst s1. cbn [with_heap hp]. now apply extract_kids_at. }
    cbn [kbefore]. rewrite K1 in H. destruct (index_of self (kremove c (kids (hp s p)))) as [idx|]; [|discriminate].
    pose proof (evo_consistent _ _ _ E1) as C1. pose proof (evo_live _ _ _ _ E1 Lp) as Lp1.
    assert (Tp1 : is_tag (hp s1) p = true) by (rewrite (evo_tag p s s1 p E1 Lp); exact Tp).
    assert (A1 : Forall (arg_ok s1 p) (map AEl [c])).
    { constructor; [|constructor]. eapply arg_ok_evo; eauto. }
    assert (Kc1 : nonsoups s1 [c]).
    { constructor; [|constructor]. rewrite (evo_kind p s s1 c E1 (proj1 Lc)). exact Kc. }
    destruct (insert_args s1 p idx [AEl c]) as [[s2 ins]|] eqn:E2; [|discriminate].
    destruct (insert_args_elems [c] s1 p idx s2 ins C1 Lp1 Tp1 A1 Kc1 E2) as (K2 & _ & _ & [Ev2 Pf2] & _).
    rewrite kmove_all_one, K1 in K2. rewrite <- K2.
    assert (E12 : evo p s s2) by (eapply evo_trans; eauto).
    pose proof (evo_live _ _ _ _ E1 Ls) as Ls1.
    assert (P1 : par (hp s1 self) = Some p).
    { subst s1. cbn [with_heap hp]. rewrite extract_par_other; [exact P|].
      cbn [is_self] in Hs. apply Nat.eqb_neq in Hs. exact Hs. }
    assert (P2 : par (hp s2 self) = Some p) by (destruct (Pf2 self (proj1 Ls1)) as [Q|Q]; rewrite Q; auto).
    apply (IH s2 self p s' (evo_consistent _ _ _ Ev2) (evo_live _ _ _ _ E12 Ls) P2); [| |exact H].
    + eapply Forall_impl; [|exact HF']. cbv beta. intros b [Hb Hsb]. split; [eapply arg_ok_evo; eauto | exact Hsb].
    + apply (nonsoups_evo p s s2 cs E12); [|exact HK'].
      rewrite Forall_forall in HF' |- *. intros c0 Hc0. apply (HF' (AEl c0)). now apply in_map.
Qed.

Lemma wf_anchor_unfold s self p cs :
  consistent s -> live s self -> par (hp s self) = Some p -> Forall (arg_ok s self) (map AEl cs) ->
  Forall (fun a => arg_ok s p a /\ is_self self a = false) (map AEl cs) /\ ~ In self cs /\ In self (kids (hp s p)).
Proof.
  intros C L P A. split; [|split].
  - eapply Forall_impl; [|exact A]. intros a. now apply arg_ok_parent.
  - intros Hin. rewrite Forall_forall in A. destruct (A (AEl self) (in_map _ _ _ Hin)) as [_ N]. apply N. constructor.
  - apply (parent_facts s self p C L P).
Qed.

Theorem op_insert_before_kids : forall s self p args cs s',
  consistent s -> wf_op s (OInsertBefore self args) -> elem_args s args cs -> par (hp s self) = Some p ->
  op_insert_before s self args = Ok s' ->
  kids (hp s' p) = kbefore self cs (kids (hp s p)).
Proof.
  intros s self p args cs s' C (L & _ & A) (-> & ND & K) P H. unfold op_insert_before in H. rewrite P in H.
  destruct (wf_anchor_unfold s self p cs C L P A) as (A' & _ & _).
  destruct (existsb (is_self self) (map AEl cs)); [discriminate|].
  apply (before_loop_kids cs s self p s' C L P A' K H).
Qed.

Corollary op_insert_before_documented : forall s self p args cs s',
  consistent s -> wf_op s (OInsertBefore self args) -> elem_args s args cs -> par (hp s self) = Some p ->
  op_insert_before s self args = Ok s' ->
  kids (hp s' p) = before_spec self cs (kids (hp s p)).
Proof.
  intros s self p args cs s' C W EA P H. rewrite (op_insert_before_kids s self p args cs s' C W EA P H).
  destruct W as (L & _ & A). destruct EA as (-> & ND & K).
  destruct (wf_anchor_unfold s self p cs C L P A) as (_ & Hn & Hin).
  destruct (parent_facts s self p C L P) as (Lp & _).
  apply kbefore_spec; auto. now apply kids_NoDup.
Qed.

Lemma after_loop_kids : forall cs s anchor p s',
  consistent s -> live s p -> is_tag (hp s) p = true ->
  Forall (arg_ok s p) (map AEl cs) -> nonsoups s cs ->
  after_loop s anchor p (map AEl cs) = Ok s' ->
  kids (hp s' p) = kafter anchor cs (kids (hp s p)).
Proof.
  induction cs as [|c cs IH]; intros s anchor p s' C Lp Tp HF HK H.
  - cbn in H. inversion H; subst. reflexivity.
  - cbn [map] in HF, H. inversion HF as [|? ? Ha HF']; subst. inversion HK as [|? ? Kc HK']; subst.
    cbn [after_loop extract_arg] in H. pose proof Ha as [Lc Nc].
    pose proof (extract_evo p s c C Lc) as E1.
    remember (with_heap s (extract (fuel_of s) (hp s) c)) as s1 eqn:Es1.
    assert (K1 : kids (hp s1 p) = kremove c (kids (hp s p))).
    { subst s1. cbn [with_heap hp]. now apply extract_kids_at. }
    cbn [kafter]. rewrite K1 in H. destruct (index_of anchor (kremove c (kids (hp s p)))) as [idx|]; [|discriminate].
    pose proof (evo_consistent _ _ _ E1) as C1. pose proof (evo_live _ _ _ _ E1 Lp) as Lp1.
    assert (Tp1 : is_tag (hp s1) p = true) by (rewrite (evo_tag p s s1 p E1 Lp); exact Tp).
    assert (A1 : Forall (arg_ok s1 p) (map AEl [c])).
    { constructor; [|constructor]. eapply arg_ok_evo; eauto. }
    assert (Kc1 : nonsoups s1 [c]).
    { constructor; [|constructor]. rewrite (evo_kind p s s1 c E1 (proj1 Lc)). exact Kc. }
    destruct (insert_args s1 p (S idx) [AEl c]) as [[s2 ins]|] eqn:E2; [|discriminate].
    destruct (insert_args_elems [c] s1 p (S idx) s2 ins C1 Lp1 Tp1 A1 Kc1 E2) as (K2 & _ & _ & [Ev2 _] & ->).
    cbn [last_opt rev app] in H.
    rewrite kmove_all_one, K1 in K2. rewrite <- K2.
    assert (E12 : evo p s s2) by (eapply evo_trans; eauto).
    assert (Tp2 : is_tag (hp s2) p = true) by (rewrite (evo_tag p s s2 p E12 Lp); exact Tp).
    apply (IH s2 c p s' (evo_consistent _ _ _ Ev2) (evo_live _ _ _ _ E12 Lp) Tp2); [| |exact H].
    + eapply Forall_arg_ok_evo; eauto.
    + apply (nonsoups_evo p s s2 cs E12); [now apply (args_live s p) | exact HK'].
Qed.

Theorem op_insert_after_kids : forall s self p args cs s',
  consistent s -> wf_op s (OInsertAfter self args) -> elem_args s args cs -> par (hp s self) = Some p ->
  op_insert_after s self args = Ok s' ->
  kids (hp s' p) = kafter self cs (kids (hp s p)).
Proof.
  intros s self p args cs s' C (L & _ & A) (-> & ND & K) P H. unfold op_insert_after in H. rewrite P in H.
  destruct (wf_anchor_unfold s self p cs C L P A) as (A' & _ & _).
  destruct (existsb (is_self self) (map AEl cs)); [discriminate|].
  destruct (parent_facts s self p C L P) as (Lp & Tp & _).
  apply (after_loop_kids cs s self p s' C Lp Tp); [|exact K|exact H].
  eapply Forall_impl; [|exact A']. cbv beta. tauto.
Qed.

Corollary op_insert_after_documented : forall s self p args cs s',
  consistent s -> wf_op s (OInsertAfter self args) -> elem_args s args cs -> par (hp s self) = Some p ->
  op_insert_after s self args = Ok s' ->
  kids (hp s' p) = after_spec self cs (kids (hp s p)).
Proof.
  intros s self p args cs s' C W EA P H. rewrite (op_insert_after_kids s self p args cs s' C W EA P H).
  destruct W as (L & _ & A). destruct EA as (-> & ND & K).
  destruct (wf_anchor_unfold s self p cs C L P A) as (_ & Hn & Hin).
  destruct (parent_facts s self p C L P) as (Lp & _).
  apply kafter_spec; auto. now apply kids_NoDup.
Qed.

(* ------------------------------------------------------------------------------------------ *)
(* replace_with                                                                               *)
(* ------------------------------------------------------------------------------------------ *)

Theorem op_replace_with_kids : forall s self p args cs s',
  consistent s -> wf_op s (OReplaceWith self args) -> elem_args s args cs -> ~ In self cs ->
  par (hp s self) = Some p ->
  op_replace_with s self args = Ok s' ->
  kids (hp s' p) = kreplace self cs (kids (hp s p)).
Proof.
  intros s self p args cs s' C (L & p' & P' & A) (-> & ND & K) Hn P H.
  assert (p' = p) by congruence. subst p'.
  destruct (parent_facts s self p C L P) as (Lp & Tp & Hin). destruct (index_of_In _ _ Hin) as (idx & Eidx).
  unfold kreplace. rewrite Eidx.
  assert (General : op_insert (with_heap s (extract (fuel_of s) (hp s) self)) p idx (map AEl cs) = Ok s').
  { unfold op_replace_with in H. rewrite P in H.
    assert (G : (if existsb (is_self p) (map AEl cs) then ValueError else
                 match index_of self (kids (hp s p)) with
                 | None => ValueError
                 | Some my_index => op_insert (with_heap s (extract (fuel_of s) (hp s) self)) p my_index (map AEl cs)
                 end) = Ok s' ->
                op_insert (with_heap s (extract (fuel_of s) (hp s) self)) p idx (map AEl cs) = Ok s').
    { rewrite (arg_ok_not_self s p _ A), Eidx. auto. }
    destruct cs as [|y [|y2 cs']]; try (apply G; exact H).
    cbn [map] in H. destruct (Nat.eqb_spec y self) as [->|Ny]; [exfalso; apply Hn; now left|].
    destruct (Nat.eqb y p); [discriminate|]. rewrite Eidx in H. exact H. }
  pose proof (extract_evo p s self C L) as E1.
  remember (with_heap s (extract (fuel_of s) (hp s) self)) as s1 eqn:Es1.
  assert (K1 : kids (hp s1 p) = remove_at idx (kids (hp s p))).
  { subst s1. cbn [with_heap hp]. rewrite (extract_kids_at s self p C Lp L). unfold kremove. now rewrite Eidx. }
  rewrite <- K1.
  pose proof (evo_consistent _ _ _ E1) as C1. pose proof (evo_live _ _ _ _ E1 Lp) as Lp1.
  assert (Tp1 : is_tag (hp s1) p = true) by (rewrite (evo_tag p s s1 p E1 Lp); exact Tp).
  unfold op_insert in General.
  destruct (insert_args s1 p idx (map AEl cs)) as [[s2 ins]|] eqn:E; [|discriminate]. inversion General; subst s2.
  apply (insert_args_elems cs s1 p idx s' ins C1 Lp1 Tp1 (Forall_arg_ok_evo _ _ _ _ E1 A)
           (nonsoups_evo p s s1 cs E1 (args_live s p cs A) K) E).
Qed.

Corollary op_replace_with_documented : forall s self p args cs s',
  consistent s -> wf_op s (OReplaceWith self args) -> elem_args s args cs -> ~ In self cs ->
  par (hp s self) = Some p ->
  op_replace_with s self args = Ok s' ->
  kids (hp s' p) = replace_spec self cs (kids (hp s p)).
Proof.
  intros s self p args cs s' C W EA Hn P H. rewrite (op_replace_with_kids s self p args cs s' C W EA Hn P H).
  destruct W as (L & _). destruct EA as (_ & ND & _).
  destruct (parent_facts s self p C L P) as (Lp & _ & Hin).
  apply kreplace_spec; auto. now apply kids_NoDup.
Qed.

Print Assumptions op_insert_kids.
Print Assumptions op_insert_frame.
Print Assumptions op_insert_documented.
Print Assumptions op_insert_before_kids.
Print Assumptions op_insert_before_documented.
Print Assumptions op_insert_after_kids.
Print Assumptions op_insert_after_documented.
Print Assumptions op_replace_with_kids.
Print Assumptions op_replace_with_documented.
