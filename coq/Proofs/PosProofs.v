(* C18 — proofs about positions (Model/Pos.v) and about what the adapter does with them. *)
From Coq Require Import List NArith Bool Arith Lia.
From BS Require Import Base.Sexp Base.Types Model.Attrs Model.Build Model.Adapter Model.Pos.
Import ListNotations.
Open Scope N_scope.

(* ---- the property's position, character by character ---- *)
Lemma scan_app p a b : scan p (a ++ b) = scan (scan p a) b.
Proof. revert p. induction a as [|c a IH]; intros p; cbn; [reflexivity|]. destruct (c =? nl); apply IH. Qed.

Lemma col_scan_no_nl k s : count_nl s = 0 -> col_scan k s = k + N.of_nat (length s).
Proof.
  revert k. induction s as [|c s IH]; intros k H; cbn [col_scan length].
  - cbn. lia.
  - cbn [count_nl] in H. destruct (c =? nl) eqn:E; [lia|]. rewrite IH by lia. lia.
Qed.

Lemma col_scan_nl k k' s : count_nl s <> 0 -> col_scan k s = col_scan k' s.
Proof.
  revert k k'. induction s as [|c s IH]; intros k k' H; cbn [col_scan].
  - cbn in H. lia.
  - cbn [count_nl] in H. destruct (c =? nl) eqn:E; [reflexivity|]. apply IH. lia.
Qed.

(* the standard library's bookkeeping (count the newlines, find the last one) is the
   character-by-character reading *)
Lemma updatepos_scan p t : updatepos p t = scan p t.
Proof.
  revert p. induction t as [|c t IH]; intros [l o].
  - cbn. f_equal. lia.
  - cbn [scan]. rewrite <- !IH. unfold updatepos. cbn [count_nl fst snd length].
    destruct (c =? nl) eqn:E.
    + replace (1 + count_nl t =? 0) with false by (symmetry; apply N.eqb_neq; lia).
      unfold tail_len. cbn [col_scan]. rewrite E.
      destruct (count_nl t =? 0) eqn:Z.
      * apply N.eqb_eq in Z. rewrite (col_scan_no_nl 0 t Z). f_equal; lia.
      * f_equal. lia.
    + rewrite N.add_0_l. destruct (count_nl t =? 0) eqn:Z.
      * rewrite Nat2N.inj_succ. f_equal. lia.
      * apply N.eqb_neq in Z. unfold tail_len. cbn [col_scan]. rewrite E.
        f_equal. apply col_scan_nl. exact Z.
Qed.

(* line = 1 + number of newlines before; column = number of characters after the last of them *)
Lemma pos_after_spec s : pos_after s = (1 + count_nl s, tail_len s).
Proof.
  unfold pos_after. rewrite <- updatepos_scan. unfold updatepos, start_pos. cbn [fst snd].
  destruct (count_nl s =? 0) eqn:Z; [|reflexivity].
  apply N.eqb_eq in Z. rewrite Z. unfold tail_len. rewrite (col_scan_no_nl 0 s Z). f_equal.
Qed.

Lemma count_nl_app a b : count_nl (a ++ b) = count_nl a + count_nl b.
Proof. induction a as [|c a IH]; cbn; [reflexivity|]. rewrite IH. lia. Qed.

Lemma tail_len_after_nl a b : count_nl b = 0 -> tail_len (a ++ nl :: b) = N.of_nat (length b).
Proof.
  intros H. unfold tail_len. generalize 0 as k. induction a as [|c a IH]; intros k; cbn [app col_scan].
  - rewrite N.eqb_refl. rewrite col_scan_no_nl by exact H. lia.
  - destruct (c =? nl); apply IH.
Qed.

Lemma tail_len_no_nl s : count_nl s = 0 -> tail_len s = N.of_nat (length s).
Proof. intros H. unfold tail_len. rewrite col_scan_no_nl by exact H. lia. Qed.

Lemma true_pos_prefix a b : true_pos (a ++ b) (length a) = pos_after a.
Proof. unfold true_pos. rewrite firstn_app, Nat.sub_diag, firstn_all. cbn. now rewrite app_nil_r. Qed.

(* ---- positions do not drift: tracking token by token = reading the whole prefix ---- *)
Lemma fold_updatepos p toks : fold_left updatepos toks p = scan p (concat toks).
Proof.
  revert p. induction toks as [|t r IH]; intros p; cbn; [reflexivity|].
  rewrite IH, updatepos_scan, scan_app. reflexivity.
Qed.

Lemma running_true_gen pre toks :
  running (pos_after pre) toks = map (true_pos (pre ++ concat toks)) (offsets (length pre) toks).
Proof.
  revert pre. induction toks as [|t r IH]; intros pre; cbn [running offsets map concat]; [reflexivity|].
  f_equal.
  - symmetry. apply true_pos_prefix.
  - rewrite updatepos_scan. unfold pos_after. rewrite <- scan_app. fold (pos_after (pre ++ t)).
    rewrite IH, app_length, app_assoc. reflexivity.
Qed.

Lemma running_true toks :
  running start_pos toks = map (true_pos (concat toks)) (offsets 0 toks).
Proof. exact (running_true_gen [] toks). Qed.

(* ---- the adapter hands positions on, or drops them ---- *)
Definition start_events (hs : list hev) : list (str * pos) :=
  flat_map (fun h => match h with HStart n _ p | HStartEnd n _ p => [(n, p)] | _ => [] end) hs.

Lemma tag_positions_app a b : tag_positions (a ++ b) = tag_positions a ++ tag_positions b.
Proof.
  induction a as [|[e p] a IH]; cbn; [reflexivity|]. destruct e; cbn; rewrite IH; reflexivity.
Qed.

Definition stored (cfg : acfg) (np : str * pos) : str * option pos :=
  (fst np, if a_store cfg then Some (snd np) else None).

Lemma end_tag_positions ac n chk : tag_positions (fst (end_tag ac n chk)) = [].
Proof. unfold end_tag. destruct (chk && memS n ac); reflexivity. Qed.

Lemma start_tag_positions cfg ac n a p he :
  tag_positions (fst (start_tag cfg ac n a p he)) = [stored cfg (n, p)].
Proof.
  unfold start_tag, stored. cbn [fst snd].
  destruct (can_be_empty (a_b cfg) n && he); [|reflexivity].
  unfold end_tag. cbn. reflexivity.
Qed.

Lemma step_positions sc cfg ac h o ac' :
  adapter_step_gen sc cfg ac h = Some (o, ac') ->
  tag_positions o = map (stored cfg) (start_events [h]).
Proof.
  destruct h; cbn [adapter_step_gen start_events flat_map app map]; intros H.
  - inversion H; subst. pose proof (start_tag_positions cfg ac name attrs p true) as E.
    destruct (start_tag cfg ac name attrs p true); inversion H; subst. exact E.
  - pose proof (start_tag_positions cfg ac name attrs p false) as E.
    destruct (start_tag cfg ac name attrs p false) as [o1 ac1]. cbn [fst] in E.
    pose proof (end_tag_positions ac1 name sc) as E2.
    destruct (end_tag ac1 name sc) as [o2 ac2]. cbn [fst] in E2.
    inversion H; subst. rewrite tag_positions_app, E, E2. reflexivity.
  - pose proof (end_tag_positions ac name true) as E.
    destruct (end_tag ac name true); inversion H; subst. exact E.
  - inversion H; subst. reflexivity.
  - destruct (charref_value name); inversion H; subst. reflexivity.
  - inversion H; subst. reflexivity.
  - inversion H; subst. reflexivity.
  - inversion H; subst. reflexivity.
  - destruct (starts_with s_cdata_open (ascii_upper s)); inversion H; subst; reflexivity.
  - inversion H; subst. reflexivity.
Qed.

Lemma start_events_cons h r : start_events (h :: r) = start_events [h] ++ start_events r.
Proof. unfold start_events. cbn [flat_map]. now rewrite app_nil_r. Qed.

Theorem pos_pass_through sc cfg : forall hs ac o ac',
  adapter_run_gen sc cfg ac hs = (o, ac', true) ->
  tag_positions o = map (stored cfg) (start_events hs).
Proof.
  induction hs as [|h r IH]; intros ac o ac' H; cbn [adapter_run_gen] in H.
  - inversion H; subst. reflexivity.
  - destruct (adapter_step_gen sc cfg ac h) as [[o1 ac1]|] eqn:S; [|inversion H].
    destruct (adapter_run_gen sc cfg ac1 r) as [[o2 ac2] ok] eqn:R.
    inversion H; subst. rewrite tag_positions_app, start_events_cons, map_app.
    rewrite (step_positions _ _ _ _ _ _ S), (IH _ _ _ R). reflexivity.
Qed.

(* a callback raises only for a numeric reference int() rejects *)
Definition callbacks_return (hs : list hev) : bool :=
  forallb (fun h => match h with
                    | HCharref n => match charref_value n with Some _ => true | None => false end
                    | _ => true end) hs.
Lemma step_returns sc cfg ac h :
  (match adapter_step_gen sc cfg ac h with Some _ => true | None => false end) =
  (match h with
   | HCharref n => match charref_value n with Some _ => true | None => false end
   | _ => true end).
Proof.
  destruct h; cbn [adapter_step_gen]; try reflexivity.
  - destruct (start_tag cfg ac name attrs p false) as [o1 ac1]. destruct (end_tag ac1 name sc). reflexivity.
  - destruct (charref_value name); reflexivity.
  - destruct (starts_with s_cdata_open (ascii_upper s)); reflexivity.
Qed.
Lemma run_ok_iff sc cfg : forall hs ac,
  snd (adapter_run_gen sc cfg ac hs) = callbacks_return hs.
Proof.
  induction hs as [|h r IH]; intros ac; cbn [adapter_run_gen callbacks_return forallb]; [reflexivity|].
  pose proof (step_returns sc cfg ac h) as R. fold (callbacks_return r).
  destruct (adapter_step_gen sc cfg ac h) as [[o1 ac1]|] eqn:S.
  - specialize (IH ac1). destruct (adapter_run_gen sc cfg ac1 r) as [[o2 ac2] ok]. cbn [snd] in *.
    rewrite <- R, <- IH. reflexivity.
  - cbn [snd]. rewrite <- R. reflexivity.
Qed.

(* with store_line_numbers off every tag's position is None — for every callback stream *)
Theorem pos_disabled_all_none sc cfg : a_store cfg = false ->
  forall hs ac, Forall (fun np => snd np = None) (tag_positions (fst (fst (adapter_run_gen sc cfg ac hs)))).
Proof.
  intros Hs. induction hs as [|h r IH]; intros ac; cbn [adapter_run_gen].
  - constructor.
  - destruct (adapter_step_gen sc cfg ac h) as [[o1 ac1]|] eqn:S; [|constructor].
    specialize (IH ac1). destruct (adapter_run_gen sc cfg ac1 r) as [[o2 ac2] ok]. cbn [fst] in *.
    rewrite tag_positions_app. apply Forall_app. split; [|exact IH].
    rewrite (step_positions _ _ _ _ _ _ S). apply Forall_forall. intros np Hin.
    apply in_map_iff in Hin as [x [E _]]. subst np. unfold stored. now rewrite Hs.
Qed.

(* with it on, every tag has one *)
Theorem pos_enabled_all_some sc cfg : a_store cfg = true ->
  forall hs ac o ac', adapter_run_gen sc cfg ac hs = (o, ac', true) ->
  tag_positions o = map (fun np => (fst np, Some (snd np))) (start_events hs).
Proof.
  intros Hs hs ac o ac' H. rewrite (pos_pass_through _ _ _ _ _ _ H).
  apply map_ext. intros np. unfold stored. now rewrite Hs.
Qed.

(* ---- both halves together: a tokenizer that fires its callbacks at token boundaries with the
   position it tracked (updatepos) gives every tag the true line and column of its token ---- *)
Definition ptoken := (str * (pos -> list hev))%type.        (* the slice consumed, its callbacks *)
Fixpoint fire (ps : list pos) (toks : list ptoken) : list hev :=
  match ps, toks with
  | p :: ps', t :: r => snd t p ++ fire ps' r
  | _, _ => []
  end.
Theorem positions_true cfg (toks : list ptoken) :
  let slices := map fst toks in
  let text := concat slices in
  adapter_run cfg [] (fire (running start_pos slices) toks) =
  adapter_run cfg [] (fire (map (true_pos text) (offsets 0 slices)) toks).
Proof. cbn zeta. now rewrite running_true. Qed.
