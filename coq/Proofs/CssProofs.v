(* C10, CSS clause — on the selector subset of Spec/CssSpec.v, select() as specified (css_matches /
   select_spec) IS a composition of find_all-style calls of Model/Search.v: the compound on the right is one
   find_all, "A > B" keeps the x whose find_parent(A) is its find_parent(), "A B" the x for which find_parents(A)
   contains a suitable element, a selector list is the document-order union. *)
From Coq Require Import List NArith ZArith Bool Arith Lia.
From BS Require Import Base.Sexp Base.Types Model.Heap Model.Iter Model.Attrs Model.Search
                       Spec.SearchSpec Spec.CssSpec Proofs.SearchProofs.
Import ListNotations.
Local Open Scope nat_scope.

Lemma no_space_app a b : no_space (a ++ b) = no_space a && no_space b.
Proof. unfold no_space. apply forallb_app. Qed.

(* a space-free, non-empty string is the join of a token list only if it is its single token *)
Lemma join_single c l : no_space c = true -> c <> [] -> join_sp l = c -> l = [c].
Proof.
  intros Hs Hne E. destruct l as [|t [|u r]].
  - cbn in E. congruence.
  - cbn in E. now subst.
  - exfalso. cbn [join_sp] in E. rewrite <- E, no_space_app in Hs. apply andb_true_iff in Hs as [_ Hs].
    cbn in Hs. discriminate.
Qed.

Lemma filter_filter_and {X} (f g : X -> bool) l : filter f (filter g l) = filter (fun x => g x && f x) l.
Proof. induction l as [|x l IH]; [reflexivity|]. cbn. destruct (g x); cbn; [destruct (f x)|]; now rewrite IH. Qed.

Lemma existsb_filter {X} (m K : X -> bool) l : existsb K (filter m l) = existsb (fun p => m p && K p) l.
Proof. induction l as [|x l IH]; [reflexivity|]. cbn. destruct (m x); cbn; now rewrite IH. Qed.

Lemma memb_filter (P : nat -> bool) x l : memb x (filter P l) = P x && memb x l.
Proof.
  induction l as [|y l IH]; cbn; [now rewrite andb_false_r|].
  destruct (P y) eqn:Py; cbn; rewrite IH; destruct (Nat.eqb x y) eqn:E; cbn; try reflexivity.
  - apply Nat.eqb_eq in E. subst. now rewrite Py.
  - apply Nat.eqb_eq in E. subst. now rewrite Py.
Qed.

Lemma memb_In x l : In x l -> memb x l = true.
Proof.
  induction l as [|y l IH]; [intros []|]. intros [->|H]; cbn; [now rewrite Nat.eqb_refl|]. rewrite (IH H). apply orb_true_r.
Qed.

(* "find_parent(A) is find_parent()" *)
Lemma child_lemma (m t K : nat -> bool) P : (forall y, m y = true -> t y = true) ->
  oeq (hd_error (filter m P)) (hd_error (filter t P)) &&
  match hd_error (filter m P) with Some y => K y | None => false end =
  match hd_error (filter t P) with Some p => m p && K p | None => false end.
Proof.
  intros Hmt. induction P as [|y P IH]; [reflexivity|]. cbn [filter].
  destruct (t y) eqn:Ty.
  - destruct (m y) eqn:My; cbn [hd_error oeq andb].
    + now rewrite Nat.eqb_refl, My.
    + rewrite My. cbn [andb]. destruct (hd_error (filter m P)) as [e|] eqn:He; cbn [oeq andb]; [|reflexivity].
      destruct (Nat.eqb e y) eqn:E; [|reflexivity]. apply Nat.eqb_eq in E. subst e.
      assert (In y (filter m P)) by (destruct (filter m P); [discriminate|]; cbn in He; inversion He; now left).
      apply filter_In in H as [_ H]. congruence.
  - destruct (m y) eqn:My; [rewrite (Hmt y My) in Ty; discriminate|]. exact IH.
Qed.

Section Css.
  Variable pat_sem : N -> str -> bool.
  Variable fun_sem : N -> callarg -> bool.
  Variable h : heap.
  Variable xm : xmap.

  Notation matches_spec := (matches_spec pat_sem fun_sem h xm).
  Notation attr_ok := (attr_ok pat_sem fun_sem xm).
  Notation find_all_method := (find_all_method pat_sem fun_sem h xm).
  Notation find_method := (find_method pat_sem fun_sem h xm).

  (* the part of css_domain that concerns one element and a set of "=" keys *)
  Definition el_domain (K : list str) (x : nat) : Prop :=
    x_prefix (xm x) = None /\
    (forall v, aget lit_class (x_attrs (xm x)) = Some v -> exists l, v = AvList l) /\
    (forall k v, In k K -> aget k (x_attrs (xm x)) = Some v -> exists s, v = AvStr s).

  Lemma simple_eq K x s : el_domain K x -> simple_ok s = true -> incl (eq_key s) K ->
    css_simple xm x s = attr_ok (crit_of_simple s) x.
  Proof.
    intros (_ & Hc & Hk) Hok Hin. unfold css_simple, SearchSpec.attr_ok. destruct s as [c|i|k|k v]; cbn [crit_of_simple fst snd].
    - destruct (aget lit_class (x_attrs (xm x))) as [w|] eqn:E; [|reflexivity].
      destruct (Hc w eq_refl) as [l ->]. cbn [class_tokens].
      unfold SearchSpec.attr_crit_val, SearchSpec.crit_val, items. cbn [existsb SearchSpec.item_val].
      rewrite orb_false_r.
      assert (E1 : existsb (fun t => str_eqb c t || false) l = memS c l).
      { unfold memS. apply existsb_ext. intros t _. apply orb_false_r. }
      rewrite E1. destruct (memS c l) eqn:M; [reflexivity|]. cbn [orb].
      destruct (str_eqb c (join_sp l)) eqn:J; [|reflexivity].
      apply str_eqb_eq in J. cbn [simple_ok] in Hok. apply andb_true_iff in Hok as [Hn Hs].
      assert (Hne : c <> []) by (destruct c; [discriminate|congruence]).
      rewrite (join_single c l Hs Hne (eq_sym J)) in M. unfold memS in M. cbn in M. now rewrite str_eqb_refl in M.
    - destruct (aget lit_id (x_attrs (xm x))) as [w|] eqn:E; [|reflexivity].
      destruct (Hk lit_id w (Hin _ (or_introl eq_refl)) E) as [s0 ->]. cbn [attr_text].
      unfold SearchSpec.attr_crit_val, SearchSpec.crit_val, items. cbn [existsb SearchSpec.item_val]. now rewrite orb_false_r.
    - destruct (aget k (x_attrs (xm x))) as [[s0|l]|] eqn:E; try reflexivity.
      unfold SearchSpec.attr_crit_val, SearchSpec.crit_val, items. cbn [existsb SearchSpec.item_val]. now rewrite !orb_true_r.
    - destruct (aget k (x_attrs (xm x))) as [w|] eqn:E; [|reflexivity].
      destruct (Hk k w (Hin _ (or_introl eq_refl)) E) as [s0 ->]. cbn [attr_text].
      unfold SearchSpec.attr_crit_val, SearchSpec.crit_val, items. cbn [existsb SearchSpec.item_val]. now rewrite orb_false_r.
  Qed.

  Lemma query_of_eff c : eff_string (query_of c) = c_none /\ eff_attr_crits (query_of c) = map crit_of_simple (c_simples c).
  Proof. split; [reflexivity|]. unfold eff_attr_crits. cbn. apply app_nil_r. Qed.

  (* a compound as CSS reads it = the same compound as find_all reads it *)
  Lemma compound_eq K fuel c x : el_domain K x -> compound_ok c = true -> incl (compound_eq_keys c) K ->
    css_compound h xm c x = matches_spec fuel (query_of c) x.
  Proof.
    intros D Hok Hin. unfold compound_ok in Hok. apply andb_true_iff in Hok as [Hs _].
    unfold css_compound, SearchSpec.matches_spec. destruct (query_of_eff c) as [Es Ea]. rewrite Es, Ea.
    destruct (is_tag h x) eqn:T.
    - cbn [andb is_none_crit c_none orb]. rewrite orb_true_r. cbn [andb]. rewrite andb_true_r.
      f_equal.
      + unfold SearchSpec.name_ok. cbn [query_of q_name]. destruct (c_type c) as [n|]; [|reflexivity].
        cbn [is_none_crit orb items existsb SearchSpec.item_name]. unfold qualified_name.
        destruct D as (Dp & _). rewrite Dp. now rewrite !orb_false_r.
      + rewrite forallb_map. apply forallb_ext. intros s Hs_in.
        apply (simple_eq K); [exact D| |].
        * rewrite forallb_forall in Hs. now apply Hs.
        * intros k Hk. apply Hin. unfold compound_eq_keys. apply in_flat_map. now exists s.
    - cbn [andb]. now rewrite !andb_false_r.
  Qed.

  (* css_compound already says "is a tag" *)
  Lemma compound_is_tag c x : css_compound h xm c x = true -> is_tag h x = true.
  Proof. unfold css_compound. intros H. apply andb_true_iff in H as [H _]. now apply andb_true_iff in H as [H _]. Qed.

  Lemma q_all_spec fuel x : matches_spec fuel q_all x = is_tag h x.
  Proof. unfold SearchSpec.matches_spec. cbn. destruct (is_tag h x); reflexivity. Qed.

  Lemma q_all_ok : query_ok q_all = true.
  Proof. reflexivity. Qed.

  Definition all_domain (K : list str) : Prop := forall x, el_domain K x.

  Lemma domain_wf K : all_domain K -> forall L : list nat, Forall (fun x => name_wf h xm x = true) L.
  Proof.
    intros D L. apply Forall_forall. intros x _. unfold name_wf. destruct (D x) as (Dp & _). now rewrite Dp.
  Qed.

  (* the plural method without limit, and the singular method, on the parents / descendants axis *)
  Lemma fa_plural K fuel a x q : all_domain K -> query_ok (method_query a q) = true -> q_limit q = None ->
    fst (find_all_method fuel a x q) = filter (matches_spec fuel (method_query a q)) (axis_list h fuel a x).
  Proof.
    intros D Q L. unfold Search.find_all_method. rewrite find_all_refines; [|exact Q|apply (domain_wf K D)].
    unfold SearchSpec.find_all_spec. destruct a; cbn [method_query q_limit]; rewrite ?L; reflexivity.
  Qed.
  Lemma fa_singular K fuel a x q : all_domain K -> query_ok (method_query a q) = true ->
    fst (find_method fuel a x q) = hd_error (filter (matches_spec fuel (method_query a q)) (axis_list h fuel a x)).
  Proof.
    intros D Q. unfold Search.find_method. apply find_is_head; [exact Q|apply (domain_wf K D)].
  Qed.

  Lemma parents_query c : method_query AxParents (query_of c) = query_of c.
  Proof. reflexivity. Qed.
  Lemma parents_q_all : method_query AxParents q_all = q_all.
  Proof. reflexivity. Qed.

  (* the left part: walking up *)
  Lemma left_eq K fuel l : all_domain K ->
    forallb (fun cc => compound_ok (snd cc)) l = true ->
    incl (flat_map (fun cc => compound_eq_keys (snd cc)) l) K ->
    forall x, css_left h xm fuel l x = left_fa pat_sem fun_sem h xm fuel l x.
  Proof.
    intros D. induction l as [|[cb c] l IH]; intros Hok Hin x; [reflexivity|].
    cbn [forallb snd] in Hok. apply andb_true_iff in Hok as [Hc Hl].
    cbn [flat_map snd] in Hin.
    assert (Hin1 : incl (compound_eq_keys c) K) by (intros k Hk; apply Hin, in_or_app; now left).
    assert (Hin2 : incl (flat_map (fun cc => compound_eq_keys (snd cc)) l) K) by (intros k Hk; apply Hin, in_or_app; now right).
    assert (Qc : query_ok (query_of c) = true) by (unfold compound_ok in Hc; now apply andb_true_iff in Hc as [_ Hc]).
    assert (M : forall p, css_compound h xm c p = matches_spec fuel (query_of c) p)
      by (intros p; now apply (compound_eq K fuel c p (D p))).
    cbn [css_left left_fa]. destruct cb.
    - (* descendant *)
      rewrite (fa_plural K fuel AxParents x (query_of c) D); [|rewrite parents_query; exact Qc|reflexivity].
      rewrite parents_query. cbn [axis_list]. rewrite existsb_filter.
      apply existsb_ext. intros p _. rewrite M. f_equal. now apply IH.
    - (* child *)
      rewrite !(fa_singular K fuel AxParents x _ D); [|exact q_all_ok|rewrite parents_query; exact Qc].
      rewrite parents_query, parents_q_all. cbn [axis_list]. unfold parent_el.
      assert (E : filter (matches_spec fuel q_all) (parents fuel h x) = filter (is_tag h) (parents fuel h x))
        by (apply filter_ext; intros p; apply q_all_spec).
      rewrite E.
      rewrite (child_lemma (matches_spec fuel (query_of c)) (is_tag h) (left_fa pat_sem fun_sem h xm fuel l)).
      + destruct (hd_error (filter (is_tag h) (parents fuel h x))) as [p|]; [|reflexivity].
        rewrite M. f_equal. now apply IH.
      + intros y My. rewrite <- M in My. now apply (compound_is_tag c).
  Qed.

  (* ---- select() is a composition of find_all calls ---- *)
  Theorem select_is_find_all fuel sel e :
    selector_ok sel = true -> css_domain sel xm ->
    select_spec h xm fuel sel e = select_fa pat_sem fun_sem h xm fuel sel e.
  Proof.
    intros Hok Dom.
    assert (D : all_domain (eq_keys sel)) by (intros x; exact (Dom x)).
    unfold select_spec, select_fa.
    rewrite (fa_plural (eq_keys sel) fuel AxDescendants e q_all D q_all_ok eq_refl).
    cbn [method_query axis_list]. set (DD := descendants fuel h e).
    rewrite filter_filter_and. apply filter_ext_in. intros x Hx.
    rewrite q_all_spec.
    assert (E : forall cx, In cx sel ->
              css_matches h xm fuel cx x = memb x (complex_fa pat_sem fun_sem h xm fuel cx e)).
    { intros cx Hcx. unfold selector_ok in Hok. rewrite forallb_forall in Hok. specialize (Hok cx Hcx).
      unfold complex_ok in Hok. apply andb_true_iff in Hok as [Hl Hr].
      assert (Qc : query_ok (query_of (cx_last cx)) = true) by (unfold compound_ok in Hl; now apply andb_true_iff in Hl as [_ Hl]).
      assert (I1 : incl (compound_eq_keys (cx_last cx)) (eq_keys sel)).
      { intros k Hk. unfold eq_keys. apply in_flat_map. exists cx. split; [exact Hcx|]. apply in_or_app. now left. }
      assert (I2 : incl (flat_map (fun cc => compound_eq_keys (snd cc)) (cx_left cx)) (eq_keys sel)).
      { intros k Hk. unfold eq_keys. apply in_flat_map. exists cx. split; [exact Hcx|]. apply in_or_app. now right. }
      unfold complex_fa. rewrite (fa_plural (eq_keys sel) fuel AxDescendants e _ D Qc eq_refl).
      cbn [method_query axis_list]. fold DD. rewrite !memb_filter, (memb_In x DD Hx), andb_true_r.
      unfold css_matches. rewrite (compound_eq (eq_keys sel) fuel _ x (D x) Hl I1).
      rewrite (left_eq (eq_keys sel) fuel (cx_left cx) D Hr I2 x). apply andb_comm. }
    rewrite (existsb_ext _ _ sel E).
    destruct (is_tag h x) eqn:T; [reflexivity|]. cbn [andb].
    (* a non-tag matches no compound *)
    apply not_true_iff_false. intros Hex. apply existsb_exists in Hex as (cx & Hcx & Hm).
    rewrite <- (E cx Hcx) in Hm. unfold css_matches in Hm. apply andb_true_iff in Hm as [Hm _].
    apply compound_is_tag in Hm. congruence.
  Qed.

  (* select_one is the first of select *)
  Corollary select_one_is_find_all fuel sel e :
    selector_ok sel = true -> css_domain sel xm ->
    select_one_spec h xm fuel sel e = hd_error (select_fa pat_sem fun_sem h xm fuel sel e).
  Proof. intros Hok Dom. unfold select_one_spec. now rewrite (select_is_find_all fuel sel e Hok Dom). Qed.
End Css.

Print Assumptions select_is_find_all.

Example css_domain_example :
  let sel := [mkcx (mkcomp (Some [97]%N) [CId [107]%N; CAttr [104; 114; 101; 102]%N])
                   [(Child, mkcomp (Some [100; 105; 118]%N) [CClass [120]%N])];
              mkcx (mkcomp (Some [98]%N) []) []] in
  selector_ok sel = true /\ css_domain sel (fun _ => mkx None [(lit_class, AvList [[120]%N]); (lit_id, AvStr [107]%N)]).
Proof.
  split; [reflexivity|]. intros x. cbn [x_prefix x_attrs]. split; [reflexivity|]. split.
  - intros v E. cbn in E. inversion E. eexists. reflexivity.
  - intros k v Hk E. cbn in Hk. destruct Hk as [<-|[]]. cbn in E. inversion E. eexists. reflexivity.
Qed.
