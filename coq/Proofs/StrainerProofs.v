(* C16 — proofs.  [dsem] is the denotation of a document under a filter: what the construction
   machine builds for it, as a recursive function of the document.  Part 1: the frame machine run on
   the document's event stream computes [dsem] (big-step, for every document).  Part 2: under a tag
   filter, [dsem] with the filter is the outermost matching elements of [dsem] without it (pure tree
   reasoning); string-only and mixed filters likewise. *)
From Coq Require Import List NArith ZArith Bool Arith Lia.
From BS Require Import Base.Sexp Base.Types Model.Heap Model.Edit Model.Build Model.Attrs Model.Search Model.Strainer
                       Spec.SearchSpec Spec.StrainerSpec Proofs.SearchProofs.
Import ListNotations.
Local Open Scope nat_scope.

(* induction over documents *)
Section DnodeInd.
  Variable P : dnode -> Prop.
  Hypothesis Htag : forall n p a ks, Forall P ks -> P (DTag n p a ks).
  Hypothesis Htext : forall cs, P (DText cs).
  Hypothesis Hspecial : forall c t, P (DSpecial c t).
  Fixpoint dnode_ind' (d : dnode) : P d :=
    match d with
    | DTag n p a ks => Htag n p a ks ((fix go (l : list dnode) : Forall P l :=
                                         match l with
                                         | [] => Forall_nil _
                                         | k :: l' => Forall_cons _ (dnode_ind' k) (go l')
                                         end) ks)
    | DText cs => Htext cs
    | DSpecial c t => Hspecial c t
    end.
End DnodeInd.

Section Sem.
  Variable pat_sem : N -> str -> bool.
  Variable fun_sem : N -> callarg -> bool.
  Variable po : option strainer.
  Variable cfg : bconfig.

  (* the two decisions, as functions of "is the tag stack at the document level" *)
  Definition tag_rejected (outside : bool) (prefix : option str) (name : str) (attrs : list (str * str)) : bool :=
    match po with
    | Some sr => outside && negb (fst (allow_tag_creation pat_sem fun_sem sr prefix name (raw_attrs attrs)))
    | None => false
    end.
  Definition string_rejected (outside : bool) (s : str) : bool :=
    match po with
    | Some sr => outside && negb (fst (allow_string_creation pat_sem fun_sem sr s))
    | None => false
    end.

  Definition cls_sel (sc : option N) (base : option N) : N :=
    let container := match base with Some c => c | None => 0%N end in
    match sc with
    | Some c => if N.eqb container 0 then c else container
    | None => container
    end.

  (* endData on the gathered chunks *)
  Definition flush (outside pw : bool) (sc : option N) (pending : list str) (base : option N) : list pnode :=
    match pending with
    | [] => []
    | chunks =>
        let current := gathered cfg pw (is_special base) chunks in
        if string_rejected outside current then [] else [PStr (cls_sel sc base) current]
    end.

  Definition pw_in (pw : bool) (name : str) : bool := pw || memS name (c_pw cfg).
  Definition sc_in (sc : option N) (name : str) : option N :=
    match assocS name (c_containers cfg) with Some c => Some c | None => sc end.

  (* one element *)
  Fixpoint dsem_node (outside pw : bool) (sc : option N) (d : dnode) {struct d} : list pnode :=
    match d with
    | DTag n p a ks =>
        let rej := tag_rejected outside p n a in
        let outside' := if rej then outside else false in
        let pw' := if rej then pw else pw_in pw n in
        let sc' := if rej then sc else sc_in sc n in
        let kn := (fix go (pending : list str) (l : list dnode) {struct l} : list pnode :=
                     match l with
                     | [] => flush outside' pw' sc' pending None
                     | DText cs :: l' => go (rev cs ++ pending) l'
                     | DSpecial c t :: l' =>
                         flush outside' pw' sc' pending None ++ flush outside' pw' sc' [t] (Some c) ++ go [] l'
                     | (DTag _ _ _ _ as d') :: l' =>
                         flush outside' pw' sc' pending None ++ dsem_node outside' pw' sc' d' ++ go [] l'
                     end) [] ks in
        if rej then kn else [PTag n p a kn]
    | _ => []
    end.

  (* a list of siblings, with the text gathered so far *)
  Fixpoint dsem_list (outside pw : bool) (sc : option N) (pending : list str) (l : list dnode) : list pnode :=
    match l with
    | [] => flush outside pw sc pending None
    | DText cs :: l' => dsem_list outside pw sc (rev cs ++ pending) l'
    | DSpecial c t :: l' =>
        flush outside pw sc pending None ++ flush outside pw sc [t] (Some c) ++ dsem_list outside pw sc [] l'
    | (DTag _ _ _ _ as d') :: l' =>
        flush outside pw sc pending None ++ dsem_node outside pw sc d' ++ dsem_list outside pw sc [] l'
    end.

  Lemma dsem_node_tag outside pw sc n p a ks :
    dsem_node outside pw sc (DTag n p a ks) =
    let rej := tag_rejected outside p n a in
    let kn := dsem_list (if rej then outside else false) (if rej then pw else pw_in pw n)
                        (if rej then sc else sc_in sc n) [] ks in
    if rej then kn else [PTag n p a kn].
  Proof.
    cbn [dsem_node]. cbv zeta.
    set (o' := if tag_rejected outside p n a then outside else false).
    set (pw' := if tag_rejected outside p n a then pw else pw_in pw n).
    set (sc' := if tag_rejected outside p n a then sc else sc_in sc n).
    assert (E : forall l pending,
      (fix go (pending : list str) (l : list dnode) {struct l} : list pnode :=
         match l with
         | [] => flush o' pw' sc' pending None
         | DText cs :: l' => go (rev cs ++ pending) l'
         | DSpecial c t :: l' => flush o' pw' sc' pending None ++ flush o' pw' sc' [t] (Some c) ++ go [] l'
         | (DTag _ _ _ _ as d') :: l' => flush o' pw' sc' pending None ++ dsem_node o' pw' sc' d' ++ go [] l'
         end) pending l = dsem_list o' pw' sc' pending l).
    { induction l as [|d l IH]; intros pending; [reflexivity|].
      destruct d; cbn [dsem_list]; rewrite ?IH; reflexivity. }
    rewrite E. reflexivity.
  Qed.

  (* ---------------------------------------------------------------------------------------- *)
  (* Part 1: the frame machine computes dsem                                                    *)
  (* ---------------------------------------------------------------------------------------- *)
  Notation zend_data := (zend_data pat_sem fun_sem po).
  Notation zstep := (zstep pat_sem fun_sem po).
  Notation zstart := (zstart pat_sem fun_sem po).
  Notation rejects_tag := (rejects_tag pat_sem fun_sem po).
  Notation rejects_string := (rejects_string pat_sem fun_sem po).

  Definition outside_of (stack : list frame) : bool := Nat.leb (length stack) 1.
  Definition pw_of (pws : list nat) : bool := negb (null pws).
  Definition sc_of (scs : list (nat * N)) : option N := match scs with (_, c) :: _ => Some c | [] => None end.
  Definition add_kids (f : frame) (ns : list pnode) : frame :=
    mkfr (fr_name f) (fr_prefix f) (fr_attrs f) (rev ns ++ fr_kids f).
  Definition depths_ok (n : nat) (pws : list nat) (scs : list (nat * N)) : Prop :=
    Forall (fun d => d <= n) pws /\ Forall (fun dc => fst dc <= n) scs.

  Lemma add_kids_nil f : add_kids f [] = f.
  Proof. destruct f; reflexivity. Qed.

  Lemma add_kids_app f a b : add_kids (add_kids f a) b = add_kids f (a ++ b).
  Proof. unfold add_kids. cbn. now rewrite rev_app_distr, app_assoc. Qed.

  Lemma add_kid_kids f a k : add_kid (add_kids f a) k = add_kids f (a ++ [k]).
  Proof. unfold add_kid, add_kids. cbn. now rewrite rev_app_distr. Qed.

  Lemma rejects_tag_eq depth p n a : rejects_tag depth p n a = tag_rejected (Nat.leb depth 1) p n a.
  Proof. reflexivity. Qed.
  Lemma rejects_string_eq depth t : rejects_string depth t = string_rejected (Nat.leb depth 1) t.
  Proof. reflexivity. Qed.

  (* endData appends the flushed string (if any) to the open element *)
  Lemma zend_data_flush f rest pws scs data base :
    zend_data cfg (mkz (f :: rest) pws scs data) base =
    mkz (add_kids f (flush (outside_of (f :: rest)) (pw_of pws) (sc_of scs) data base) :: rest) pws scs [].
  Proof.
    unfold Strainer.zend_data, flush. cbn [z_data z_stack z_pws z_scs].
    destruct data as [|c data]; [now rewrite add_kids_nil|].
    rewrite rejects_string_eq. fold (outside_of (f :: rest)). fold (pw_of pws).
    destruct (string_rejected _ _); [now rewrite add_kids_nil|].
    unfold add_kids, add_kid. cbn. f_equal. f_equal. f_equal.
    unfold zstring_container, cls_sel, sc_of. cbn [z_scs]. destruct scs as [|[d c0] scs]; reflexivity.
  Qed.

  Lemma fold_data cs : forall stack pws scs data,
    fold_left (zstep cfg) (map EData cs) (mkz stack pws scs data) = mkz stack pws scs (rev cs ++ data).
  Proof.
    induction cs as [|c cs IH]; intros; cbn; [reflexivity|].
    unfold zdata. cbn. rewrite IH. now rewrite <- app_assoc.
  Qed.

  Lemma opt_str_eqb_refl p : opt_str_eqb p p = true.
  Proof. destruct p; cbn; [apply str_eqb_refl|reflexivity]. Qed.

  (* an end tag at the document level closes nothing *)
  Lemma zpop_to_tag_single f pws scs data n p :
    zpop_to_tag cfg (mkz [f] pws scs data) n p = mkz [f] pws scs data.
  Proof.
    unfold zpop_to_tag. cbn [z_stack length pred zpop_loop]. destruct (_ && _); reflexivity.
  Qed.

  (* the end tag of the element on top of the stack closes exactly it *)
  Lemma zpop_to_tag_top n p a kids parent rest pws scs :
    zpop_to_tag cfg (mkz (mkfr n p a kids :: parent :: rest) pws scs []) n p =
    zpop (mkz (mkfr n p a kids :: parent :: rest) pws scs []).
  Proof.
    unfold zpop_to_tag. cbn [z_stack].
    assert (C : Nat.eqb (zcount n (mkfr n p a kids :: parent :: rest)) 0 = false).
    { unfold zcount. cbn [removelast]. destruct rest; cbn [filter fr_name]; rewrite str_eqb_refl; reflexivity. }
    assert (O : zis_open (mkz (mkfr n p a kids :: parent :: rest) pws scs []) n p = true).
    { unfold zis_open. cbn [z_stack removelast]. destruct rest; cbn [existsb fr_name fr_prefix];
        now rewrite str_eqb_refl, opt_str_eqb_refl. }
    rewrite C, O. cbn [negb andb length pred zpop_loop z_stack]. rewrite C.
    cbn [fr_name fr_prefix]. now rewrite str_eqb_refl, opt_str_eqb_refl.
  Qed.

  Lemma head_depth_pws d pws : Forall (fun x => x <= d) pws ->
    match pws with d' :: r => if Nat.eqb d' (S d) then r else pws | [] => [] end = pws.
  Proof.
    intros H. destruct pws as [|d' r]; [reflexivity|]. inversion H; subst.
    destruct (Nat.eqb d' (S d)) eqn:E; [|reflexivity]. apply Nat.eqb_eq in E. lia.
  Qed.
  Lemma head_depth_scs d (scs : list (nat * N)) : Forall (fun x => fst x <= d) scs ->
    match scs with (d', c) :: r => if Nat.eqb d' (S d) then r else scs | [] => [] end = scs.
  Proof.
    intros H. destruct scs as [|[d' c] r]; [reflexivity|]. inversion H; subst. cbn in *.
    destruct (Nat.eqb d' (S d)) eqn:E; [|reflexivity]. apply Nat.eqb_eq in E. lia.
  Qed.

  (* the state after the events of one node *)
  Definition after (d : dnode) (f : frame) (rest : list frame) (pws : list nat) (scs : list (nat * N)) (data : list str) : zst :=
    let o := outside_of (f :: rest) in let pw := pw_of pws in let sc := sc_of scs in
    match d with
    | DText cs => mkz (f :: rest) pws scs (rev cs ++ data)
    | DSpecial c t => mkz (add_kids f (flush o pw sc data None ++ flush o pw sc [t] (Some c)) :: rest) pws scs []
    | DTag _ _ _ _ => mkz (add_kids f (flush o pw sc data None ++ dsem_node o pw sc d) :: rest) pws scs []
    end.
  Definition Q (d : dnode) : Prop := forall f rest pws scs data,
    depths_ok (S (length rest)) pws scs ->
    fold_left (zstep cfg) (brackets d) (mkz (f :: rest) pws scs data) = after d f rest pws scs data.

  Lemma run_list ds : Forall Q ds -> forall f rest pws scs data,
    depths_ok (S (length rest)) pws scs ->
    zend_data cfg (fold_left (zstep cfg) (brackets_f ds) (mkz (f :: rest) pws scs data)) None =
    mkz (add_kids f (dsem_list (outside_of (f :: rest)) (pw_of pws) (sc_of scs) data ds) :: rest) pws scs [].
  Proof.
    induction 1 as [|d ds Hd Hds IH]; intros f rest pws scs data DO.
    - cbn [brackets_f flat_map fold_left dsem_list]. apply zend_data_flush.
    - unfold brackets_f. cbn [flat_map]. rewrite fold_left_app. rewrite (Hd f rest pws scs data DO).
      destruct d as [n p a ks|cs|c t]; cbn [after dsem_list]; fold (brackets_f ds).
      + rewrite IH; [|exact DO].
        match goal with |- context [outside_of (?x :: rest)] =>
          change (outside_of (x :: rest)) with (outside_of (f :: rest)) end.
        rewrite add_kids_app. now rewrite <- app_assoc.
      + apply IH; assumption.
      + rewrite IH; [|exact DO].
        match goal with |- context [outside_of (?x :: rest)] =>
          change (outside_of (x :: rest)) with (outside_of (f :: rest)) end.
        rewrite add_kids_app. now rewrite <- !app_assoc.
  Qed.

  Lemma outside_true_single (f : frame) rest : outside_of (f :: rest) = true -> rest = [].
  Proof. unfold outside_of. cbn. destruct rest; [reflexivity|discriminate]. Qed.

  Lemma tag_rejected_outside o p n a : tag_rejected o p n a = true -> o = true.
  Proof. unfold tag_rejected. destruct po; [|discriminate]. destruct o; [reflexivity|discriminate]. Qed.

  Lemma all_Q : forall d, Q d.
  Proof.
    induction d as [n p a ks IHks|cs|c t] using dnode_ind'; intros f rest pws scs data DO.
    - (* an element *)
      cbn [brackets fold_left]. change (flat_map brackets ks) with (brackets_f ks).
      rewrite fold_left_app. cbn [fold_left].
      unfold Strainer.zstep at 3. unfold Strainer.zstart. rewrite zend_data_flush. cbn [z_stack].
      set (o := outside_of (f :: rest)). set (pw := pw_of pws). set (sc := sc_of scs).
      set (F0 := flush o pw sc data None).
      rewrite rejects_tag_eq.
      change (Nat.leb (length (add_kids f F0 :: rest)) 1) with o.
      cbn [after]. fold o pw sc F0. rewrite dsem_node_tag. cbv zeta.
      destruct (tag_rejected o p n a) eqn:RJ.
      + (* rejected: its children are parsed at the same level, its end tag closes nothing *)
        pose proof (tag_rejected_outside _ _ _ _ RJ) as Ho. pose proof (outside_true_single f rest Ho) as ->.
        unfold Strainer.zstep at 1. unfold zend.
        rewrite (run_list ks IHks (add_kids f F0) [] pws scs [] DO).
        rewrite zpop_to_tag_single.
        change (outside_of [add_kids f F0]) with o. now rewrite add_kids_app.
      + (* kept: pushed, children inside, popped by its end tag *)
        unfold zpush. cbn [z_stack z_pws z_scs z_data fr_name length].
        set (dd := S (S (length rest))).
        set (pws1 := if memS n (c_pw cfg) then dd :: pws else pws).
        set (scs1 := match assocS n (c_containers cfg) with Some c => (dd, c) :: scs | None => scs end).
        assert (DO1 : depths_ok (S (length (add_kids f F0 :: rest))) pws1 scs1).
        { destruct DO as [D1 D2]. cbn [length]. fold dd. split.
          - unfold pws1. destruct (memS n (c_pw cfg)); [constructor; [lia|]|];
              (eapply Forall_impl; [|exact D1]; cbn; intros; unfold dd; lia).
          - unfold scs1. destruct (assocS n (c_containers cfg)); [constructor; [cbn; lia|]|];
              (eapply Forall_impl; [|exact D2]; cbn; intros; unfold dd; lia). }
        unfold Strainer.zstep at 1. unfold zend.
        rewrite (run_list ks IHks (mkfr n p a []) (add_kids f F0 :: rest) pws1 scs1 [] DO1).
        assert (O1 : outside_of (mkfr n p a [] :: add_kids f F0 :: rest) = false) by reflexivity.
        rewrite O1.
        assert (P1 : pw_of pws1 = pw_in pw n).
        { unfold pws1, pw_in, pw, pw_of. destruct (memS n (c_pw cfg)); cbn; [now rewrite orb_true_r|now rewrite orb_false_r]. }
        assert (S1 : sc_of scs1 = sc_in sc n).
        { unfold scs1, sc_in, sc, sc_of. destruct (assocS n (c_containers cfg)); reflexivity. }
        rewrite P1, S1.
        set (K := dsem_list false (pw_in pw n) (sc_in sc n) [] ks).
        unfold add_kids at 1. cbn [fr_name fr_prefix fr_attrs fr_kids]. rewrite app_nil_r.
        rewrite (zpop_to_tag_top n p a (rev K) (add_kids f F0) rest pws1 scs1).
        unfold zpop. cbn [z_stack z_pws z_scs z_data length]. fold dd.
        assert (PW : match pws1 with d' :: r => if Nat.eqb d' dd then r else pws1 | [] => [] end = pws).
        { unfold pws1. destruct (memS n (c_pw cfg)).
          - now rewrite Nat.eqb_refl.
          - apply head_depth_pws. exact (proj1 DO). }
        assert (SC : match scs1 with (d', c) :: r => if Nat.eqb d' dd then r else scs1 | [] => [] end = scs).
        { unfold scs1. destruct (assocS n (c_containers cfg)).
          - now rewrite Nat.eqb_refl.
          - apply head_depth_scs. exact (proj2 DO). }
        rewrite PW, SC. unfold node_of. cbn [fr_name fr_prefix fr_attrs fr_kids]. rewrite rev_involutive.
        now rewrite add_kid_kids.
    - (* text *)
      cbn [brackets after]. apply fold_data.
    - (* comment and the like *)
      cbn [brackets fold_left after]. unfold Strainer.zstep. rewrite zend_data_flush.
      unfold zdata. cbn [z_stack z_pws z_scs z_data]. rewrite zend_data_flush.
      match goal with |- context [outside_of (?x :: rest)] =>
        change (outside_of (x :: rest)) with (outside_of (f :: rest)) end.
      now rewrite add_kids_app.
  Qed.

  (* the whole run: the contents of the document object are the denotation of the document *)
  (* the context the document object itself provides (normally none) *)
  Definition root_pw : bool := memS (c_root cfg) (c_pw cfg).
  Definition root_sc : option N := assocS (c_root cfg) (c_containers cfg).

  Theorem zfeed_dsem ds :
    zfeed pat_sem fun_sem po cfg (brackets_f ds) = dsem_list true root_pw root_sc [] ds.
  Proof.
    unfold zfeed, zrun, zreset.
    set (pws0 := if memS (c_root cfg) (c_pw cfg) then [1] else []).
    set (scs0 := match assocS (c_root cfg) (c_containers cfg) with Some c => [(1, c)] | None => [] end).
    assert (DO : depths_ok (S (length (@nil frame))) pws0 scs0).
    { split; [unfold pws0; destruct (memS _ _)|unfold scs0; destruct (assocS _ _)]; repeat constructor. }
    rewrite (run_list ds (proj2 (Forall_forall Q ds) (fun d _ => all_Q d)) (mkfr (c_root cfg) None [] []) [] pws0 scs0 [] DO).
    cbn [z_stack length zpop_all].
    cbn [z_stack]. unfold add_kids. cbn [fr_kids]. rewrite app_nil_r, rev_involutive.
    assert (P0 : pw_of pws0 = root_pw) by (unfold pws0, root_pw, pw_of; destruct (memS _ _); reflexivity).
    assert (S0 : sc_of scs0 = root_sc) by (unfold scs0, root_sc, sc_of; destruct (assocS _ _); reflexivity).
    now rewrite P0, S0.
  Qed.
End Sem.

(* ------------------------------------------------------------------------------------------ *)
(* Part 2: what the filter keeps                                                                *)
(* ------------------------------------------------------------------------------------------ *)
Section Keep.
  Variable pat_sem : N -> str -> bool.
  Variable fun_sem : N -> callarg -> bool.
  Variable cfg : bconfig.

  Notation dsem_list := (dsem_list pat_sem fun_sem).
  Notation dsem_node := (dsem_node pat_sem fun_sem).
  Notation flush := (flush pat_sem fun_sem).

  (* inside a kept element (or without a filter) nothing is ever rejected *)
  Definition I (po : option strainer) (d : dnode) : Prop := forall o pw sc,
    dsem_node po cfg false pw sc d = dsem_node None cfg o pw sc d.

  Lemma flush_inside po o pw sc pending base :
    flush po cfg false pw sc pending base = flush None cfg o pw sc pending base.
  Proof. unfold StrainerProofs.flush, string_rejected. destruct po; reflexivity. Qed.

  Lemma inside_list po ds : Forall (I po) ds -> forall o pw sc pending,
    dsem_list po cfg false pw sc pending ds = dsem_list None cfg o pw sc pending ds.
  Proof.
    induction 1 as [|d ds Hd Hds IH]; intros o pw sc pending; cbn [StrainerProofs.dsem_list].
    - apply flush_inside.
    - destruct d as [n p a ks|cs|c t].
      + now rewrite (flush_inside po o), (Hd o pw sc), (IH o).
      + apply IH.
      + now rewrite !(flush_inside po o), (IH o).
  Qed.

  Lemma all_inside po : forall d, I po d.
  Proof.
    induction d as [n p a ks IHks|cs|c t] using dnode_ind'; intros o pw sc; [|reflexivity|reflexivity].
    rewrite !dsem_node_tag. cbv zeta.
    assert (R1 : tag_rejected pat_sem fun_sem po false p n a = false) by (unfold tag_rejected; destruct po; reflexivity).
    assert (R2 : tag_rejected pat_sem fun_sem None o p n a = false) by reflexivity.
    rewrite R1, R2. f_equal. f_equal. now apply inside_list.
  Qed.

  Lemma dsem_inside po ds o pw sc pending :
    dsem_list po cfg false pw sc pending ds = dsem_list None cfg o pw sc pending ds.
  Proof. apply inside_list. apply Forall_forall. intros d _. apply all_inside. Qed.

  Lemma outermost_f_app m a b : outermost_f m (a ++ b) = outermost_f m a ++ outermost_f m b.
  Proof. unfold outermost_f. apply flat_map_app. Qed.

  Variable sr : strainer.
  Variable table : option cdata_table.

  Notation allowed := (allowed pat_sem fun_sem sr).
  Notation tag_matches := (tag_matches pat_sem fun_sem sr table).
  Notation string_allowed := (string_allowed pat_sem fun_sem sr).
  Notation has_allowed := (has_allowed pat_sem fun_sem sr).
  Notation ctx_ok := (ctx_ok pat_sem fun_sem sr cfg).

  (* ---- the decision before the Tag exists = the match on the finished Tag ---- *)
  Lemma aget_processed name attrs k :
    match table with None | Some [] => true | Some tb => negb (is_multi tb name k) end = true ->
    aget k (processed table name attrs) = aget k (raw_attrs attrs).
  Proof.
    unfold processed. destruct table as [[|e tb]|]; try reflexivity.
    intros H. apply negb_true_iff in H. unfold raw_attrs.
    induction attrs as [|[k' v] attrs IH]; cbn; [reflexivity|].
    destruct (str_eqb k k') eqn:E; [|exact IH].
    apply str_eqb_eq in E. subst k'. now rewrite H.
  Qed.

  Lemma bind_fst_congr (t t' : M bool) (k k' : bool -> M bool) :
    fst t = fst t' -> fst (k true) = fst (k' true) -> fst (k false) = fst (k' false) ->
    fst (bind t k) = fst (bind t' k').
  Proof. rewrite !fst_bind. intros ->. destruct (fst t'); auto. Qed.

  Lemma fst_name_loop rules xs :
    fst (name_loop pat_sem fun_sem rules xs) =
    existsb (fun r => existsb (fun v => fst (matches_string pat_sem fun_sem SName r v)) xs) rules.
  Proof.
    induction rules as [|r rs IH]; cbn [name_loop existsb]; [reflexivity|].
    rewrite fst_bind, fst_bind. cbn [fst ret]. now rewrite fst_any_m, IH.
  Qed.

  Lemma raw_vs_processed name prefix attrs :
    tag_filter sr = true -> single_valued_on sr table name = true ->
    tag_matches name prefix attrs = allowed name prefix attrs.
  Proof.
    intros TF SV. unfold tag_filter in TF. apply andb_true_iff in TF as [TF FF]. apply andb_true_iff in TF as [NS NE].
    unfold StrainerSpec.tag_matches, StrainerSpec.allowed, matches_tag, allow_tag_creation.
    rewrite NS. apply negb_true_iff in NE. rewrite NE. cbn [negb one_heap txt x_prefix x_attrs].
    (* the attribute part is the same computation on the same values *)
    assert (AT : fst (all_m (fun kr => attribute_match pat_sem fun_sem (snd kr) (aget (fst kr) (processed table name attrs))) (s_attrs sr))
               = fst (all_m (fun kr => attribute_match pat_sem fun_sem (snd kr) (aget (fst kr) (raw_attrs attrs))) (s_attrs sr))).
    { rewrite !fst_all_m. apply forallb_ext. intros kr Hin. rewrite aget_processed; [reflexivity|].
      unfold single_valued_on in SV. destruct table as [[|e tb]|]; try reflexivity.
      rewrite forallb_forall in SV. now apply SV. }
    (* the name part *)
    set (pn := prefixed_of prefix name).
    set (xs := sv_str name :: match pn with Some q => [sv_str q] | None => [] end).
    assert (NM : forall r, rule_fun_free r = true ->
              fst (bind (rule_matches_tag pat_sem fun_sem (one_heap name) r 0) (fun b =>
                     if b then ret true
                     else match pn with
                          | Some q => ret (match base_match pat_sem r (Some q) with Some true => true | _ => false end)
                          | None => ret false
                          end))
              = existsb (fun v => fst (matches_string pat_sem fun_sem SName r v)) xs).
    { intros r Fr. rewrite fst_bind. unfold rule_matches_tag, matches_string, xs. cbn [one_heap txt sv_str sv_text existsb].
      destruct r as [s|q|f|b]; try discriminate; cbn [base_match ret fst].
      - destruct (str_eqb s name); cbn; [reflexivity|]. destruct pn; cbn; [|reflexivity]. destruct (str_eqb s s0); reflexivity.
      - destruct (pat_sem q name); cbn; [reflexivity|]. destruct pn; cbn; [|reflexivity]. destruct (pat_sem q s); reflexivity.
      - destruct b; cbn; destruct pn; reflexivity. }
    destruct (negb (has_prefix prefix) && match s_name sr with [RStr s] => negb (str_eqb name s) | _ => false end) eqn:OPT.
    { (* the single-name shortcut *)
      apply andb_true_iff in OPT as [O1 O2]. apply negb_true_iff in O1.
      destruct (s_name sr) as [|[s| | |] [|]] eqn:R; try discriminate.
      cbn [null]. rewrite fst_bind, fst_name_loop. cbn [existsb].
      assert (PN : prefixed_of prefix name = None) by (destruct prefix as [[|]|]; cbn in *; congruence).
      unfold xs, pn. rewrite PN. cbn [existsb]. unfold matches_string. cbn [sv_str sv_text base_match ret fst].
      apply negb_true_iff in O2. rewrite (str_eqb_sym s name), O2. reflexivity. }
    clear OPT. apply bind_fst_congr.
    - destruct (null (s_name sr)); [reflexivity|]. rewrite fst_any_m, fst_name_loop.
      apply existsb_ext. intros r Hin. apply NM. rewrite forallb_forall in FF. now apply FF.
    - cbn [negb]. rewrite fst_bind, AT.
      match goal with |- context [fst (all_m ?f ?l)] => destruct (fst (all_m f l)) end; reflexivity.
    - reflexivity.
  Qed.

  (* under a tag filter, text at the document level is dropped and contributes nothing to the spec either *)
  Lemma tag_filter_rejects_strings : tag_filter sr = true -> forall t, string_allowed t = false.
  Proof.
    unfold tag_filter. intros TF t. apply andb_true_iff in TF as [TF _]. apply andb_true_iff in TF as [_ NE].
    unfold StrainerSpec.string_allowed, allow_string_creation. apply negb_true_iff in NE.
    destruct (null (s_name sr)), (null (s_attrs sr)); cbn in *; congruence.
  Qed.

  Lemma flush_tag_filter pw sc pending base : tag_filter sr = true ->
    flush (Some sr) cfg true pw sc pending base = [].
  Proof.
    intros TF. unfold StrainerProofs.flush, string_rejected. destruct pending; [reflexivity|].
    pose proof (tag_filter_rejects_strings TF (gathered cfg pw (is_special base) (s :: pending))) as E.
    unfold StrainerSpec.string_allowed in E. rewrite E. reflexivity.
  Qed.

  Lemma outermost_flush m o pw sc pending base : outermost_f m (flush None cfg o pw sc pending base) = [].
  Proof. unfold StrainerProofs.flush. destruct pending; reflexivity. Qed.

  Notation M_ := tag_matches.
  Variable pw0 : bool.              (* the context at the document level *)
  Variable sc0 : option N.

  (* one element, at the document level of the selective parse; (pwR, scR) is the context the same
     element has in the full parse *)
  Definition R (d : dnode) : Prop := forall pwR scR,
    single_valued sr table d = true -> ctx_ok d = true ->
    ((pwR = pw0 /\ scR = sc0) \/ has_allowed d = false) ->
    dsem_node (Some sr) cfg true pw0 sc0 d = outermost_f M_ (dsem_node None cfg true pwR scR d).

  Lemma outermost_list (TF : tag_filter sr = true) ds : Forall R ds -> forall pending pwR scR,
    forallb (single_valued sr table) ds = true -> forallb ctx_ok ds = true ->
    ((pwR = pw0 /\ scR = sc0) \/ existsb has_allowed ds = false) ->
    dsem_list (Some sr) cfg true pw0 sc0 pending ds = outermost_f M_ (dsem_list None cfg true pwR scR pending ds).
  Proof.
    induction 1 as [|d ds Hd Hds IH]; intros pending pwR scR SV CO CX; cbn [StrainerProofs.dsem_list].
    - now rewrite flush_tag_filter, outermost_flush.
    - cbn [forallb] in SV, CO. apply andb_true_iff in SV as [SV1 SV2]. apply andb_true_iff in CO as [CO1 CO2].
      assert (CXd : (pwR = pw0 /\ scR = sc0) \/ has_allowed d = false).
      { destruct CX as [CX|CX]; [now left|]. right. cbn [existsb] in CX. now apply orb_false_iff in CX as [CX _]. }
      assert (CXs : (pwR = pw0 /\ scR = sc0) \/ existsb has_allowed ds = false).
      { destruct CX as [CX|CX]; [now left|]. right. cbn [existsb] in CX. now apply orb_false_iff in CX as [_ CX]. }
      destruct d as [n p a ks|cs|c t].
      + rewrite !outermost_f_app, flush_tag_filter, outermost_flush by exact TF. cbn [app].
        rewrite (Hd pwR scR SV1 CO1 CXd). f_equal. now apply IH.
      + now apply IH.
      + rewrite !outermost_f_app, !flush_tag_filter, !outermost_flush by exact TF. cbn [app]. now apply IH.
  Qed.

  Lemma all_R (TF : tag_filter sr = true) : forall d, R d.
  Proof.
    induction d as [n p a ks IHks|cs|c t] using dnode_ind'; intros pwR scR SV CO CX; [|reflexivity|reflexivity].
    cbn [single_valued] in SV. apply andb_true_iff in SV as [SV1 SVk].
    rewrite !dsem_node_tag. cbv zeta.
    assert (RN : tag_rejected pat_sem fun_sem None true p n a = false) by reflexivity.
    rewrite RN.
    assert (RS : tag_rejected pat_sem fun_sem (Some sr) true p n a = negb (allowed n p a)) by reflexivity.
    rewrite RS. unfold outermost_f at 1. cbn [flat_map outermost]. rewrite app_nil_r.
    rewrite (raw_vs_processed n p a TF SV1).
    cbn [ctx_ok] in CO. cbn [has_allowed] in CX.
    destruct (allowed n p a) eqn:AL; cbn [negb].
    - (* kept: its whole subtree, parsed in the same context as in the full parse *)
      destruct CX as [[-> ->]|CX]; [|discriminate].
      f_equal. f_equal. apply dsem_inside.
    - (* rejected: look inside *)
      apply andb_true_iff in CO as [CO1 COk].
      rewrite (dsem_inside None ks true).
      fold (outermost_f M_ (dsem_list None cfg true (pw_in cfg pwR n) (sc_in cfg scR n) [] ks)).
      apply (outermost_list TF ks IHks); [exact SVk|exact COk|].
      destruct (existsb has_allowed ks) eqn:HA; [left|now right].
      cbn in CX. destruct CX as [[-> ->]|CX]; [|discriminate].
      rewrite orb_false_r in CO1. apply negb_true_iff in CO1. unfold is_ctx in CO1.
      apply orb_false_iff in CO1 as [C1 C2]. unfold pw_in, sc_in. rewrite C1, orb_false_r.
      destruct (assocS n (c_containers cfg)); [discriminate|]. split; reflexivity.
  Qed.


  (* ---- a filter with only string criteria ---- *)
  Definition keep_strings (ns : list pnode) : list pnode :=
    map (fun ct => PStr (fst ct) (snd ct)) (filter (fun ct => string_allowed (snd ct)) (strings_f ns)).

  Lemma keep_strings_app a b : keep_strings (a ++ b) = keep_strings a ++ keep_strings b.
  Proof. unfold keep_strings, strings_f. now rewrite flat_map_app, filter_app, map_app. Qed.

  Lemma string_filter_rejects_tags : string_filter sr = true -> forall n p a, allowed n p a = false.
  Proof.
    unfold string_filter. intros SF n p a. apply andb_true_iff in SF as [SF _]. apply andb_true_iff in SF as [SS _].
    unfold StrainerSpec.allowed, allow_tag_creation. now rewrite SS.
  Qed.

  Lemma flush_string_filter pending base :
    flush (Some sr) cfg true pw0 sc0 pending base = keep_strings (flush None cfg true pw0 sc0 pending base).
  Proof.
    unfold StrainerProofs.flush, string_rejected, keep_strings. destruct pending as [|c pending]; [reflexivity|].
    cbn [andb strings_f flat_map strings_of app filter snd fst].
    fold (string_allowed (gathered cfg pw0 (is_special base) (c :: pending))).
    destruct (string_allowed (gathered cfg pw0 (is_special base) (c :: pending))); reflexivity.
  Qed.

  Definition RS (d : dnode) : Prop := ctx_free cfg d = true ->
    dsem_node (Some sr) cfg true pw0 sc0 d = keep_strings (dsem_node None cfg true pw0 sc0 d).

  Lemma strings_list (SF : string_filter sr = true) ds : Forall RS ds -> forall pending,
    forallb (ctx_free cfg) ds = true ->
    dsem_list (Some sr) cfg true pw0 sc0 pending ds = keep_strings (dsem_list None cfg true pw0 sc0 pending ds).
  Proof.
    induction 1 as [|d ds Hd Hds IH]; intros pending CF; cbn [StrainerProofs.dsem_list].
    - apply flush_string_filter.
    - cbn [forallb] in CF. apply andb_true_iff in CF as [CF1 CF2]. destruct d as [n p a ks|cs|c t].
      + rewrite !keep_strings_app, <- flush_string_filter, (Hd CF1). f_equal. f_equal. now apply IH.
      + now apply IH.
      + rewrite !keep_strings_app, <- !flush_string_filter. f_equal. f_equal. now apply IH.
  Qed.

  Lemma all_RS (SF : string_filter sr = true) : forall d, RS d.
  Proof.
    induction d as [n p a ks IHks|cs|c t] using dnode_ind'; intros CF; [|reflexivity|reflexivity].
    cbn [ctx_free] in CF. apply andb_true_iff in CF as [C1 CFk]. apply negb_true_iff in C1.
    unfold is_ctx in C1. apply orb_false_iff in C1 as [C1 C2].
    rewrite !dsem_node_tag. cbv zeta.
    assert (RN : tag_rejected pat_sem fun_sem None true p n a = false) by reflexivity.
    assert (RJ : tag_rejected pat_sem fun_sem (Some sr) true p n a = true).
    { unfold tag_rejected. cbn [andb]. pose proof (string_filter_rejects_tags SF n p a) as E.
      unfold StrainerSpec.allowed in E. now rewrite E. }
    rewrite RN, RJ. unfold keep_strings at 1. unfold strings_f. cbn [flat_map strings_of]. rewrite app_nil_r.
    fold (strings_f (dsem_list None cfg false (pw_in cfg pw0 n) (sc_in cfg sc0 n) [] ks)).
    fold (keep_strings (dsem_list None cfg false (pw_in cfg pw0 n) (sc_in cfg sc0 n) [] ks)).
    unfold pw_in, sc_in. rewrite C1, orb_false_r. destruct (assocS n (c_containers cfg)); [discriminate|].
    rewrite (dsem_inside None ks true). now apply (strings_list SF ks IHks).
  Qed.


  (* ---- the same for EVERY document: exactly the matching text runs of the document ---- *)
  Definition keep_runs (rs : list (N * str)) : list pnode :=
    map (fun ct => PStr (fst ct) (snd ct)) (filter (fun ct => string_allowed (snd ct)) rs).

  Lemma keep_runs_app a b : keep_runs (a ++ b) = keep_runs a ++ keep_runs b.
  Proof. unfold keep_runs. now rewrite filter_app, map_app. Qed.

  Lemma runs_node_tag n p a ks : runs_node cfg (DTag n p a ks) = text_runs cfg [] ks.
  Proof.
    cbn [runs_node].
    assert (E : forall l pending,
      (fix go (pending : list str) (l : list dnode) {struct l} : list (N * str) :=
         match l with
         | [] => run_of cfg pending None
         | DText cs :: l' => go (rev cs ++ pending) l'
         | DSpecial c t :: l' => run_of cfg pending None ++ run_of cfg [t] (Some c) ++ go [] l'
         | (DTag _ _ _ _ as d') :: l' => run_of cfg pending None ++ runs_node cfg d' ++ go [] l'
         end) pending l = text_runs cfg pending l).
    { induction l as [|d l IH]; intros pending; [reflexivity|].
      destruct d; cbn [text_runs]; rewrite ?IH; reflexivity. }
    apply E.
  Qed.

  Lemma flush_run pending base :
    flush (Some sr) cfg true (root_pw cfg) (root_sc cfg) pending base = keep_runs (run_of cfg pending base).
  Proof.
    unfold StrainerProofs.flush, string_rejected, keep_runs, run_of. destruct pending as [|c pending]; [reflexivity|].
    cbn [andb filter snd fst map].
    change (doc_pw cfg) with (root_pw cfg). change (doc_class cfg base) with (cls_sel (root_sc cfg) base).
    fold (string_allowed (gathered cfg (root_pw cfg) (is_special base) (c :: pending))).
    destruct (string_allowed (gathered cfg (root_pw cfg) (is_special base) (c :: pending))); reflexivity.
  Qed.

  Definition RR (d : dnode) : Prop :=
    dsem_node (Some sr) cfg true (root_pw cfg) (root_sc cfg) d = keep_runs (runs_node cfg d).

  Lemma runs_list (SF : string_filter sr = true) ds : Forall RR ds -> forall pending,
    dsem_list (Some sr) cfg true (root_pw cfg) (root_sc cfg) pending ds = keep_runs (text_runs cfg pending ds).
  Proof.
    induction 1 as [|d ds Hd Hds IH]; intros pending; cbn [StrainerProofs.dsem_list text_runs].
    - apply flush_run.
    - destruct d as [n p a ks|cs|c t].
      + now rewrite !keep_runs_app, <- flush_run, Hd, IH.
      + apply IH.
      + now rewrite !keep_runs_app, <- !flush_run, IH.
  Qed.

  Lemma all_RR (SF : string_filter sr = true) : forall d, RR d.
  Proof.
    induction d as [n p a ks IHks|cs|c t] using dnode_ind'; [|reflexivity|reflexivity].
    unfold RR. rewrite dsem_node_tag, runs_node_tag. cbv zeta.
    assert (RJ : tag_rejected pat_sem fun_sem (Some sr) true p n a = true).
    { unfold tag_rejected. cbn [andb]. pose proof (string_filter_rejects_tags SF n p a) as E.
      unfold StrainerSpec.allowed in E. now rewrite E. }
    rewrite RJ. now apply (runs_list SF ks IHks).
  Qed.

  (* ---- a filter mixing both kinds keeps nothing ---- *)
  Lemma mixed_rejects : mixed_filter sr = true ->
    (forall n p a, allowed n p a = false) /\ (forall t, string_allowed t = false).
  Proof.
    unfold mixed_filter. intros MF. apply andb_true_iff in MF as [SS NE]. split.
    - intros n p a. unfold StrainerSpec.allowed, allow_tag_creation. now rewrite SS.
    - intros t. unfold StrainerSpec.string_allowed, allow_string_creation. apply negb_true_iff in NE.
      destruct (null (s_name sr)), (null (s_attrs sr)); cbn in *; congruence.
  Qed.

  Definition RM (d : dnode) : Prop := dsem_node (Some sr) cfg true pw0 sc0 d = [].

  Lemma flush_mixed (MF : mixed_filter sr = true) pending base : flush (Some sr) cfg true pw0 sc0 pending base = [].
  Proof.
    unfold StrainerProofs.flush, string_rejected. destruct pending; [reflexivity|].
    pose proof (proj2 (mixed_rejects MF) (gathered cfg pw0 (is_special base) (s :: pending))) as E.
    unfold StrainerSpec.string_allowed in E. now rewrite E.
  Qed.

  Lemma mixed_list (MF : mixed_filter sr = true) ds : Forall RM ds -> forall pending,
    dsem_list (Some sr) cfg true pw0 sc0 pending ds = [].
  Proof.
    induction 1 as [|d ds Hd Hds IH]; intros pending; cbn [StrainerProofs.dsem_list].
    - now apply flush_mixed.
    - destruct d as [n p a ks|cs|c t].
      + now rewrite (flush_mixed MF), Hd, IH.
      + apply IH.
      + now rewrite !(flush_mixed MF), IH.
  Qed.

  Lemma all_RM (MF : mixed_filter sr = true) : forall d, RM d.
  Proof.
    induction d as [n p a ks IHks|cs|c t] using dnode_ind'; [|reflexivity|reflexivity].
    unfold RM. rewrite dsem_node_tag. cbv zeta.
    assert (RJ : tag_rejected pat_sem fun_sem (Some sr) true p n a = true).
    { unfold tag_rejected. cbn [andb]. pose proof (proj1 (mixed_rejects MF) n p a) as E.
      unfold StrainerSpec.allowed in E. now rewrite E. }
    rewrite RJ. now apply (mixed_list MF).
  Qed.

End Keep.

Section Final.
  Variable pat_sem : N -> str -> bool.
  Variable fun_sem : N -> callarg -> bool.
  Variable cfg : bconfig.
  Variable sr : strainer.
  Variable table : option cdata_table.

  (* C16, first sentence *)
  Theorem parse_only_outermost ds :
    tag_filter sr = true ->
    forallb (single_valued sr table) ds = true -> forallb (ctx_ok pat_sem fun_sem sr cfg) ds = true ->
    zfeed pat_sem fun_sem (Some sr) cfg (brackets_f ds) =
    outermost_f (tag_matches pat_sem fun_sem sr table) (zfeed pat_sem fun_sem None cfg (brackets_f ds)).
  Proof.
    intros TF SV CO. rewrite !zfeed_dsem.
    apply (outermost_list pat_sem fun_sem cfg sr table (root_pw cfg) (root_sc cfg) TF); [|exact SV|exact CO|left; split; reflexivity].
    apply Forall_forall. intros d _. now apply all_R.
  Qed.

  (* C16, second sentence: every tag is dropped, exactly the matching text runs are kept *)
  Theorem string_only_filter ds :
    string_filter sr = true -> forallb (ctx_free cfg) ds = true ->
    zfeed pat_sem fun_sem (Some sr) cfg (brackets_f ds) =
    keep_strings pat_sem fun_sem sr (zfeed pat_sem fun_sem None cfg (brackets_f ds)).
  Proof.
    intros SF CF. rewrite !zfeed_dsem.
    apply (strings_list pat_sem fun_sem cfg sr (root_pw cfg) (root_sc cfg) SF); [|exact CF].
    apply Forall_forall. intros d _. now apply all_RS.
  Qed.

  (* C16, second sentence, for EVERY document: the selective parse is exactly the matching text runs of the
     document (text_runs: adjacent text separated by dropped tags is not merged; each run is stored the way the
     document level stores text) *)
  Theorem string_only_filter_runs ds :
    string_filter sr = true ->
    zfeed pat_sem fun_sem (Some sr) cfg (brackets_f ds) = keep_runs pat_sem fun_sem sr (text_runs cfg [] ds).
  Proof.
    intros SF. rewrite zfeed_dsem. apply (runs_list pat_sem fun_sem cfg sr SF).
    apply Forall_forall. intros d _. now apply all_RR.
  Qed.

  (* C16, third sentence *)
  Theorem mixed_keeps_nothing ds :
    mixed_filter sr = true ->
    zfeed pat_sem fun_sem (Some sr) cfg (brackets_f ds) = [].
  Proof.
    intros MF. rewrite zfeed_dsem.
    apply (mixed_list pat_sem fun_sem cfg sr (root_pw cfg) (root_sc cfg) MF).
    apply Forall_forall. intros d _. now apply all_RM.
  Qed.
End Final.

(* ------------------------------------------------------------------------------------------ *)
(* Witnesses over the tables generated from the source (coq/Gen/Tables.v)                      *)
(* ------------------------------------------------------------------------------------------ *)
From BS Require Import Gen.Tables Base.Lit.
From Coq Require Import String.

Definition html_cfg : bconfig :=
  mkcfg (Some default_empty_element_tags) default_preserve_whitespace_tags default_string_containers
        ascii_spaces root_tag_name.
Definition no_pat16 : N -> str -> bool := fun _ _ => false.
Definition no_fun16 : N -> callarg -> bool := fun _ _ => false.
(* SoupStrainer("b") *)
Definition sr_b : strainer := mk_strainer (COne (AtStr (lit "b"))) (AttrsDict []) c_none [].
(* <pre><b> \n </b></pre> *)
Definition doc_pre_b : list dnode :=
  [DTag (lit "pre") None [] [DTag (lit "b") None [] [DText [[32; 10; 32]%N]]]].

(* OPEN FINDING C16-rejected-context-ancestor: without [ctx_ok] the statement is false of the code —
   the kept <b> loses the whitespace its rejected <pre> ancestor preserves in the full parse *)
Lemma rejected_context_refuted :
  exists ds,
    tag_filter sr_b = true /\
    forallb (single_valued sr_b (Some default_cdata_list_attributes)) ds = true /\
    zfeed no_pat16 no_fun16 (Some sr_b) html_cfg (brackets_f ds) <>
    outermost_f (tag_matches no_pat16 no_fun16 sr_b (Some default_cdata_list_attributes))
                (zfeed no_pat16 no_fun16 None html_cfg (brackets_f ds)).
Proof.
  exists doc_pre_b. repeat split; try reflexivity. vm_compute. discriminate.
Qed.

(* OPEN FINDING C16-string-filter-lost-context: compared with the FULL parse, a string-only filter does not keep
   "exactly the strings it matches" once a dropped element would have changed how its text is stored:
   <pre> \n </pre> with SoupStrainer(string=" \n ") keeps nothing although the full parse contains that very
   string (the selective parse never opens <pre>, collapses the run to "\n", and then asks the filter) *)
Definition sr_ws : strainer := mk_strainer c_none (AttrsDict []) (COne (AtStr [32; 10; 32]%N)) [].
Definition doc_pre_ws : list dnode := [DTag (lit "pre") None [] [DText [[32; 10; 32]%N]]].
Lemma string_filter_context_refuted :
  exists ds,
    string_filter sr_ws = true /\
    zfeed no_pat16 no_fun16 (Some sr_ws) html_cfg (brackets_f ds) <>
    keep_strings no_pat16 no_fun16 sr_ws (zfeed no_pat16 no_fun16 None html_cfg (brackets_f ds)).
Proof. exists doc_pre_ws. split; [reflexivity|]. vm_compute. discriminate. Qed.

(* the hypotheses of parse_only_outermost are satisfiable, on a document that has a rejected
   whitespace-preserving element (without kept descendants), nesting, attributes and text *)
Definition sr_b_id : strainer :=
  mk_strainer (CList [AtStr (lit "b"); AtStr (lit "a")]) (AttrsDict []) c_none [(lit "id", COne (AtBool true))].
Definition doc_ok : list dnode :=
  [DTag (lit "pre") None [] [DText [[32; 10]%N]];
   DTag (lit "div") None [] [DTag (lit "b") None [(lit "id", lit "1")] [DText [lit "t"]; DTag (lit "b") None [] []];
                             DTag (lit "a") None [] []];
   DText [lit "x"]].
Example tag_domain_inhabited :
  tag_filter sr_b_id = true /\
  forallb (single_valued sr_b_id (Some default_cdata_list_attributes)) doc_ok = true /\
  forallb (ctx_ok no_pat16 no_fun16 sr_b_id html_cfg) doc_ok = true /\
  List.length (zfeed no_pat16 no_fun16 (Some sr_b_id) html_cfg (brackets_f doc_ok)) = 1%nat.
Proof. repeat split; reflexivity. Qed.

(* the attributes the documentation's examples filter on are single-valued on every tag: no entry of
   the multi-valued table lists them *)
Lemma not_listed_single_valued tb attr :
  forallb (fun e => negb (memS attr (snd e))) tb = true -> forall tag, is_multi tb tag attr = false.
Proof.
  intros H tag. unfold is_multi, tget.
  assert (G : forall k, memS attr (match assocS k tb with Some l => l | None => [] end) = false).
  { intros k. induction tb as [|[k' l] tb IH]; cbn; [reflexivity|].
    cbn in H. apply andb_true_iff in H as [H1 H2]. apply negb_true_iff in H1.
    destruct (str_eqb k k'); [exact H1|exact (IH H2)]. }
  now rewrite !G.
Qed.

Lemma id_href_name_single_valued : forall tag,
  is_multi default_cdata_list_attributes tag (lit "id") = false /\
  is_multi default_cdata_list_attributes tag (lit "href") = false /\
  is_multi default_cdata_list_attributes tag (lit "name") = false.
Proof. intros tag. repeat split; apply not_listed_single_valued; reflexivity. Qed.
