(* C09 — when html.unescape raises (Model/UnescapeLimit.v), and that no substitution's output makes it raise
   (for 'html5': no output of a string without bare reference). *)
From Coq Require Import List NArith Bool Arith Lia.
From BS Require Import Base.Sexp Base.Types Base.Reader Gen.Entities Gen.T_C09
     Model.SmartQuotes Model.EntitySubst Model.UnescapeLimit Spec.EntitiesSpec
     Proofs.EntitiesTables Proofs.EntitiesProofs Proofs.EntitiesAttrProofs Proofs.EntitiesIff.
Import ListNotations.
Open Scope N_scope.

(* ---- every ampersand of a text is looked at: what a match covers contains no ampersand ---- *)
Fixpoint raises_loc (s : str) : bool :=
  match s with
  | [] => false
  | c :: r => ((c =? c_amp) && over_limit r) || raises_loc r
  end.

Lemma forallb_not_amp_class (Q : N -> bool) w : Q c_amp = false -> forallb Q w = true -> forallb not_amp w = true.
Proof. intros. now apply (class_not_amp Q). Qed.

Lemma firstn_semi (a rest : str) :
  firstn (length a + (if starts_semi rest then 1 else 0)) (a ++ rest) =
  a ++ (if starts_semi rest then [c_semi] else []).
Proof.
  destruct rest as [|c rest0]; cbn [starts_semi].
  - rewrite Nat.add_0_r, !app_nil_r. apply firstn_all.
  - destruct (c =? c_semi) eqn:E.
    + apply N.eqb_eq in E. subst c. rewrite firstn_app, firstn_all2 by lia.
      replace (length a + 1 - length a)%nat with 1%nat by lia. reflexivity.
    + rewrite Nat.add_0_r, firstn_app, firstn_all, Nat.sub_diag, firstn_O. reflexivity.
Qed.

Lemma semi_tail_not_amp rest : forallb not_amp (if starts_semi rest then [c_semi] else []) = true.
Proof. destruct (starts_semi rest); reflexivity. Qed.

Lemma charref_match_no_amp r rep n : charref_match r = Some (rep, n) -> forallb not_amp (firstn n r) = true.
Proof.
  unfold charref_match. destruct r as [|h r1]; [discriminate|]. destruct (h =? c_hash) eqn:Eh.
  - apply N.eqb_eq in Eh. subst h. destruct r1 as [|d r2]; [discriminate|]. destruct (is_digit d).
    + destruct (span is_digit (d :: r2)) as [ds rest] eqn:Es. intros H. inversion H; subst. clear H.
      apply span_spec in Es as [Es Hf]. rewrite Es.
      change (1 + length ds + (if starts_semi rest then 1 else 0))%nat
        with (S (length ds + (if starts_semi rest then 1 else 0))).
      rewrite firstn_cons, firstn_semi. cbn [forallb]. rewrite forallb_app, semi_tail_not_amp.
      now rewrite (forallb_not_amp_class is_digit ds eq_refl Hf).
    + destruct ((d =? c_x) || (d =? c_X)) eqn:Ex; [|discriminate].
      destruct (span is_hexd r2) as [hs rest] eqn:Es. destruct hs as [|h0 hs0]; [discriminate|].
      intros H. inversion H; subst. clear H. apply span_spec in Es as [Es Hf]. rewrite Es.
      change (2 + length (h0 :: hs0) + (if starts_semi rest then 1 else 0))%nat
        with (S (S (length (h0 :: hs0) + (if starts_semi rest then 1 else 0)))).
      do 2 rewrite firstn_cons. change (S (length hs0 + (if starts_semi rest then 1 else 0)))%nat with (length (h0 :: hs0) + (if starts_semi rest then 1 else 0))%nat. rewrite firstn_semi. cbn [forallb]. rewrite forallb_app, semi_tail_not_amp.
      rewrite (forallb_not_amp_class is_hexd (h0 :: hs0) eq_refl Hf).
      assert (not_amp d = true) as ->; [|reflexivity].
      unfold not_amp. apply negb_true_iff, N.eqb_neq. intros ->. discriminate.
  - destruct (take_max un_name_char 32 (h :: r1)) as [run rest] eqn:Et.
    destruct run as [|c0 run0]; [discriminate|]. intros H. inversion H; subst. clear H.
    apply take_max_spec in Et as (Er & Hf & _). rewrite Er.
    assert (Hn : forallb not_amp (c0 :: run0) = true) by (now apply (forallb_not_amp_class un_name_char)).
    destruct rest as [|c rest0]; cbn [starts_semi].
    + rewrite app_nil_r, firstn_all. exact Hn.
    + destruct (c =? c_semi) eqn:Ec.
      * apply N.eqb_eq in Ec. subst c.
        replace ((c0 :: run0) ++ c_semi :: rest0) with (((c0 :: run0) ++ [c_semi]) ++ rest0) by now rewrite <- app_assoc.
        rewrite firstn_app, firstn_all, Nat.sub_diag, firstn_O, app_nil_r, forallb_app, Hn. reflexivity.
      * now rewrite firstn_app, firstn_all, Nat.sub_diag, firstn_O, app_nil_r.
Qed.

Lemma raises_go_loc : forall s k,
  forallb not_amp (firstn k s) = true -> unescape_raises_go k s = raises_loc s.
Proof.
  induction s as [|c r IH]; intros k Hk; [destruct k; reflexivity|].
  destruct k as [|k].
  - cbn [unescape_raises_go raises_loc]. destruct (c =? c_amp) eqn:Ec; cbn [andb orb].
    + destruct (over_limit r); [reflexivity|]. cbn [orb].
      destruct (charref_match r) as [[rep n]|] eqn:Em.
      * apply IH. now apply (charref_match_no_amp r rep n).
      * now apply IH.
    + now apply IH.
  - cbn [firstn forallb] in Hk. apply andb_prop in Hk as [Hc Hk].
    cbn [unescape_raises_go raises_loc]. unfold not_amp in Hc. apply negb_true_iff in Hc. rewrite Hc.
    cbn [andb orb]. now apply IH.
Qed.

Lemma unescape_raises_loc s : unescape_raises s = raises_loc s.
Proof. unfold unescape_raises. now apply raises_go_loc. Qed.

Lemma raises_loc_plain c t : c <> c_amp -> raises_loc (c :: t) = raises_loc t.
Proof. intros H. cbn [raises_loc]. apply N.eqb_neq in H. now rewrite H. Qed.

Lemma raises_loc_plain_run w t : ~ In c_amp w -> raises_loc (w ++ t) = raises_loc t.
Proof.
  induction w as [|c w IH]; intros H; [reflexivity|]. cbn [app].
  rewrite raises_loc_plain; [|intros ->; apply H; now left]. apply IH. intros Hi. apply H. now right.
Qed.

Lemma over_limit_name name t : good_name name = true -> over_limit (name ++ t) = false.
Proof.
  intros Hg. destruct (good_name_parts name Hg) as (a & tl & -> & Ha & _).
  cbn [app]. unfold over_limit. destruct (tl ++ t); [reflexivity|]. now rewrite (alpha_not_hash a Ha).
Qed.

Lemma raises_loc_ref name t : good_name name = true -> raises_loc (c_amp :: name ++ c_semi :: t) = raises_loc t.
Proof.
  intros Hg. cbn [raises_loc]. rewrite N.eqb_refl, (over_limit_name name _ Hg). cbn [andb orb].
  replace (name ++ c_semi :: t) with ((name ++ [c_semi]) ++ t) by now rewrite <- app_assoc.
  apply raises_loc_plain_run. intros Hi. apply in_app_or in Hi as [Hi|[E|[]]]; [|discriminate].
  pose proof (good_name_alnum name Hg) as Hal. rewrite forallb_forall in Hal.
  destruct (namechar_not_special _ (alnum_namechar _ (Hal _ Hi))) as [Hne _]. congruence.
Qed.

(* ---- escaped text never makes html.unescape raise ---- *)
Theorem enc_never_raises o s : enc o s -> unescape_raises o = false.
Proof.
  rewrite unescape_raises_loc. induction 1 as [|c o s Hc _ IH|name seq o s [Hg _] _ IH].
  - reflexivity.
  - now rewrite raises_loc_plain.
  - now rewrite raises_loc_ref.
Qed.

(* ---- a particle pass (naming characters, the quoting's &quot;) changes nothing about it ---- *)
Section RaisesPass.
  Variable ps : list particle.
  Hypothesis Hent : forallb particle_entity_ok ps = true.
  Hypothesis Hin : forallb particle_inert ps = true.
  Notation sub := (sub_particles ps O).

  Lemma sub_head_eq c t (Q : N -> bool) : Q c_amp = false -> (inert c = true -> Q c = false) ->
    exists c' t', sub (c :: t) = c' :: t' /\ Q c' = Q c.
  Proof.
    intros Qa Qi. destruct (sub_head ps Hent Hin c t) as [E|(Hi & name & seq & rest & _ & _ & _ & E & _)]; rewrite E.
    - eauto.
    - exists c_amp, (name ++ c_semi :: sub rest). split; [reflexivity|]. now rewrite Qa, (Qi Hi).
  Qed.

  Lemma over_limit_sub X : over_limit (sub X) = over_limit X.
  Proof.
    destruct X as [|h X1]; [reflexivity|].
    destruct (N.eqb_spec h c_hash) as [->|Hh].
    - rewrite (sub_noninert ps Hin c_hash X1 eq_refl).
      destruct X1 as [|d r2]; [reflexivity|].
      destruct (is_digit d) eqn:Ed.
      + rewrite (sub_noninert ps Hin d r2 (digit_noninert d Ed)).
        unfold over_limit. rewrite N.eqb_refl, Ed. cbn [andb]. f_equal.
        destruct (span is_digit (d :: r2)) as [ds rest] eqn:Es.
        destruct (span_sub ps Hent Hin is_digit digit_noninert eq_refl _ _ _ Es) as [Es' _].
        rewrite (sub_noninert ps Hin d r2 (digit_noninert d Ed)) in Es'. now rewrite Es'.
      + destruct (sub_head_eq d r2 is_digit eq_refl) as (d' & t' & E & Hd').
        { intros Hi. now destruct (inert_facts d Hi) as (_ & _ & _ & _ & H5 & _). }
        rewrite E. unfold over_limit. rewrite N.eqb_refl, Hd', Ed. reflexivity.
    - destruct (sub_head_eq h X1 (fun c => c =? c_hash) eq_refl) as (h' & t' & E & Hh').
      { intros Hi. now destruct (inert_facts h Hi) as (_ & _ & H3 & _). }
      rewrite E. unfold over_limit. apply N.eqb_neq in Hh. rewrite Hh in Hh'. rewrite Hh', Hh.
      destruct t', X1; reflexivity.
  Qed.

  Lemma pass_raises_n : forall n t, (length t <= n)%nat -> raises_loc (sub t) = raises_loc t.
  Proof.
    induction n as [|n IH]; intros t Hl.
    - destruct t; [reflexivity | cbn in Hl; lia].
    - destruct t as [|c t']; [reflexivity|]. cbn [length] in Hl.
      destruct (sub_head ps Hent Hin c t') as [E|(Hi & name & seq & rest & [Hg _] & Hs & Hna & E & Hlt)].
      + rewrite E. cbn [raises_loc]. rewrite over_limit_sub. f_equal. apply IH. lia.
      + rewrite E, Hs. rewrite (raises_loc_ref name _ Hg), (raises_loc_plain_run seq rest Hna).
        apply IH. cbn [length] in Hlt. lia.
  Qed.

  Theorem pass_raises t : unescape_raises (sub t) = unescape_raises t.
  Proof. rewrite !unescape_raises_loc. now apply pass_raises_n with (n := length t). Qed.
End RaisesPass.

Theorem html5_pass_raises t : unescape_raises (sub_particles html_particles O t) = unescape_raises t.
Proof. apply pass_raises; [exact particles_entity_tbl | exact particles_inert_tbl]. Qed.

Theorem replace_dq_raises v : unescape_raises (replace_dq v) = unescape_raises v.
Proof. rewrite replace_dq_as_pass. apply pass_raises; apply dq_particles_tbl. Qed.

(* the attribute reader with its failure: quoting never changes what happens *)
Theorem read_quoted_checked_spec o :
  read_quoted_checked (quoted_attribute_value o) =
  if unescape_raises o then AttrRejected else AttrValue (unescape o).
Proof.
  assert (W : forall qc body, (qc = c_dq \/ qc = c_sq) -> ~ In qc body ->
              read_quoted_checked (qc :: body ++ [qc]) =
              match unescape_checked body with Some v => AttrValue v | None => AttrRejected end).
  { intros qc body Hq Hb. unfold read_quoted_checked.
    assert ((qc =? c_dq) || (qc =? c_sq) = true) as -> by (destruct Hq as [-> | ->]; reflexivity).
    now rewrite span_quote. }
  unfold quoted_attribute_value.
  destruct (memN c_dq o) eqn:E1; [destruct (memN c_sq o) eqn:E2|].
  - rewrite W; [| now left | apply replace_dq_no_dq]. unfold unescape_checked.
    rewrite replace_dq_raises, replace_dq_transparent. now destruct (unescape_raises o).
  - rewrite W; [| now right | now apply memN_false]. unfold unescape_checked. now destruct (unescape_raises o).
  - rewrite W; [| now left | now apply memN_false]. unfold unescape_checked. now destruct (unescape_raises o).
Qed.

(* ---- 'minimal' and 'html': the attribute reader never fails and returns the original ---- *)
Theorem enc_read_quoted_checked o s : enc o s -> read_quoted_checked (quoted_attribute_value o) = AttrValue s.
Proof.
  intros H. rewrite read_quoted_checked_spec, (enc_never_raises o s H). f_equal. now apply enc_unescape.
Qed.

Theorem minimal_html_attr_checked v :
  (exists q, substitute_xml v true = Some q /\ read_quoted_checked q = AttrValue v) /\
  read_quoted_checked (quoted_attribute_value (substitute_html v)) = AttrValue v.
Proof.
  split.
  - unfold substitute_xml. destruct (xml_enc v) as (o & -> & He & _).
    exists (quoted_attribute_value o). split; [reflexivity | now apply enc_read_quoted_checked].
  - apply enc_read_quoted_checked, html_enc.
Qed.

(* ---- 'html5' ---- *)
Lemma over_limit_local w X : stops X -> over_limit (w ++ X) = over_limit w.
Proof.
  intros HX. destruct w as [|h [|d r2]].
  - destruct HX as [->|[X' ->]]; [reflexivity|]. cbn [app]. unfold over_limit. destruct X'; reflexivity.
  - destruct HX as [->|[X' ->]]; [reflexivity|]. cbn [app]. unfold over_limit.
    change (is_digit c_amp) with false. now rewrite andb_false_r.
  - cbn [app]. unfold over_limit. change (d :: r2 ++ X) with ((d :: r2) ++ X).
    rewrite (span_stops is_digit X eq_refl HX). reflexivity.
Qed.

Lemma dead_attr_not_over r : dead_amp_attr r = true -> over_limit (upto_amp r) = false.
Proof.
  unfold dead_amp_attr. intros H. apply str_eqb_eq in H. unfold unescape in H. rewrite unescape_amp in H.
  destruct (upto_amp_split r) as (_ & _ & _ & Hn). set (w := upto_amp r) in *.
  destruct (over_limit w) eqn:Eo; [|reflexivity]. exfalso.
  unfold over_limit in Eo. destruct w as [|h [|d r2]]; try discriminate.
  apply andb_prop in Eo as [Eo _]. apply andb_prop in Eo as [Eh Ed]. apply N.eqb_eq in Eh. subst h.
  assert (Em : exists n, charref_match (c_hash :: d :: r2) =
                 Some (replace_numeric (num_of 10 (fst (span is_digit (d :: r2)))), n) /\ (2 <= n)%nat).
  { unfold charref_match. rewrite N.eqb_refl, Ed. destruct (span is_digit (d :: r2)) as [ds rest] eqn:Es.
    eexists. split; [reflexivity|]. cbn [fst].
    destruct ds as [|d0 ds0]; [cbn in Es; rewrite Ed in Es; destruct (span is_digit r2); discriminate|].
    cbn [length]. lia. }
  destruct Em as (n & Em & Hn2). rewrite Em in H.
  pose proof (charref_match_len _ _ _ Em) as Hlen.
  pose proof (replace_numeric_len (num_of 10 (fst (span is_digit (d :: r2))))) as Hr.
  apply (f_equal (@length N)) in H. rewrite app_length in H.
  rewrite unescape_skip, unescape_no_amp in H.
  2:{ intros Hi. apply Hn. rewrite <- (firstn_skipn n (c_hash :: d :: r2)). apply in_or_app. now right. }
  rewrite skipn_length in H. cbn [length] in *. lia.
Qed.

Theorem html5_never_raises s :
  no_bare_ref_attr s = true -> unescape_raises (substitute_html5 s) = false.
Proof.
  unfold substitute_html5. rewrite html5_pass_raises, escape_any_entity_loc, unescape_raises_loc.
  induction s as [|c r IH]; intros H; [reflexivity|].
  cbn [no_bare_ref_attr] in H. apply andb_prop in H as [H1 H2]. specialize (IH H2). cbn [esc_loc].
  destruct (c =? c_amp) eqn:Ec; cbn [andb].
  - apply N.eqb_eq in Ec. subst c. destruct (any_entity_match r) as [n|].
    + change (s_amp_ent ++ esc_loc r) with (c_amp :: n_amp ++ c_semi :: esc_loc r).
      destruct known_amp as [Hg _]. now rewrite (raises_loc_ref n_amp _ Hg).
    + cbn [raises_loc]. rewrite N.eqb_refl, IH, orb_false_r. cbn [andb].
      destruct (esc_loc_upto r) as (X & Hx & HX & _). rewrite Hx, (over_limit_local _ X HX).
      now apply dead_attr_not_over.
  - apply N.eqb_neq in Ec. now rewrite raises_loc_plain.
Qed.

Theorem html5_attr_checked s :
  no_bare_ref_attr s = true ->
  read_quoted_checked (quoted_attribute_value (substitute_html5 s)) = AttrValue s.
Proof.
  intros H. rewrite read_quoted_checked_spec, (html5_never_raises s H). f_equal.
  pose proof (html5_attr_roundtrip s H) as E. rewrite read_quoted_is_unescape in E. injection E as E1. exact E1.
Qed.

(* it does happen for a string WITH a bare reference: "&#" followed by 4301 digits is written as it is, and the
   parser rejects the document that contains it as an attribute value *)
Definition over_limit_witness : str := c_amp :: c_hash :: repeat 49 (S py_int_max_str_digits).

Theorem html5_can_be_rejected :
  no_bare_ref_attr over_limit_witness = false /\
  read_quoted_checked (quoted_attribute_value (substitute_html5 over_limit_witness)) = AttrRejected.
Proof.
  split; [vm_compute; reflexivity|].
  rewrite read_quoted_checked_spec. unfold substitute_html5. rewrite html5_pass_raises.
  assert (unescape_raises (escape_any_entity over_limit_witness) = true) as -> by (vm_compute; reflexivity).
  reflexivity.
Qed.
