(* C09 — the 'html5' substitution read back as an attribute value (html.unescape).
   Main results: naming characters (the particle pass, and the quoting's replacement of the double quote by its reference) never changes what
   html.unescape reads, for any text; hence what is read back from substitute_html5 is what html.unescape reads
   from the text with only its "&...;" forms protected; and the round trip for every string whose remaining
   ampersands html.unescape leaves alone. *)
From Coq Require Import List NArith Bool Arith Lia.
From BS Require Import Base.Sexp Base.Types Base.Reader Gen.Entities Gen.T_C09
     Model.SmartQuotes Model.EntitySubst Spec.EntitiesSpec Proofs.EntitiesTables Proofs.EntitiesProofs.
Import ListNotations.
Open Scope N_scope.

(* ---- oracle-table facts about html.entities.html5 ---- *)
Definition keychar (c : N) : bool := is_alnum c || (c =? c_semi).

Lemma html5_keys_tbl :
  forallb (fun kv => forallb keychar (fst kv) && Nat.leb 2 (length (fst kv))) py_html5 = true.
Proof. vm_compute. reflexivity. Qed.

Lemma assocS_some_in {X} k (l : list (str * X)) v : assocS k l = Some v -> In (k, v) l.
Proof.
  induction l as [|[k' v'] l IH]; cbn; [discriminate|].
  destruct (str_eqb k k') eqn:E.
  - intros H. inversion H; subst. apply str_eqb_eq in E. subst. now left.
  - intros H. right. now apply IH.
Qed.

Lemma html5_key_facts k v : html5_lookup k = Some v -> forallb keychar k = true /\ (2 <= length k)%nat.
Proof.
  unfold html5_lookup. intros H. apply assocS_some_in in H.
  pose proof html5_keys_tbl as T. rewrite forallb_forall in T. specialize (T _ H). cbn [fst] in T.
  apply andb_prop in T as [T1 T2]. split; [assumption | now apply Nat.leb_le].
Qed.

Lemma html5_not_key k c : In c k -> keychar c = false -> html5_lookup k = None.
Proof.
  intros Hi Hc. destruct (html5_lookup k) as [v|] eqn:E; [|reflexivity].
  destruct (html5_key_facts k v E) as [Hk _]. rewrite forallb_forall in Hk. rewrite (Hk c Hi) in Hc. discriminate.
Qed.

Lemma inert_not_keychar c : inert c = true -> keychar c = false.
Proof.
  intros H. destruct (inert_facts c H) as (H1 & H2 & _). unfold keychar. rewrite H2, orb_false_r.
  destruct (is_alnum c) eqn:E; [|reflexivity]. now rewrite (alnum_namechar c E) in H1.
Qed.

(* ---- replace_named on a run that contains a character no key contains ---- *)
Lemma longest_prefix_split a h w : keychar h = false -> forall x,
  (x <= length a)%nat ->
  longest_prefix x (a ++ h :: w) =
  match longest_prefix x a with Some r => Some (r ++ h :: w) | None => None end.
Proof.
  intros Hh. induction x as [|x IH]; intros Hx; [reflexivity|].
  cbn [longest_prefix]. destruct (Nat.leb 2 (S x)) eqn:E2; [|reflexivity].
  rewrite firstn_app. replace (S x - length a)%nat with O by lia. rewrite firstn_O, app_nil_r.
  destruct (html5_lookup (firstn (S x) a)) as [v|].
  - f_equal. rewrite skipn_app. replace (S x - length a)%nat with O by lia. rewrite skipn_O.
        now rewrite <- app_assoc.
  - apply IH. lia.
Qed.

Lemma longest_prefix_beyond a h w : keychar h = false -> forall x,
  (length a <= x)%nat ->
  longest_prefix x (a ++ h :: w) = longest_prefix (length a) (a ++ h :: w).
Proof.
  intros Hh. induction x as [|x IH]; intros Hx.
  - assert (length a = O) by lia. now rewrite H.
  - destruct (Nat.eq_dec (S x) (length a)) as [E|E]; [now rewrite E|].
    cbn [longest_prefix]. destruct (Nat.leb 2 (S x)) eqn:E2.
    + rewrite (html5_not_key (firstn (S x) (a ++ h :: w)) h); [apply IH; lia | | assumption].
      rewrite firstn_app. apply in_or_app. right.
      replace (S x - length a)%nat with (S (x - length a)) by lia. cbn. now left.
    + (* S x < 2, so S x = 1 and a is empty or ... both sides None *)
      apply Nat.leb_gt in E2. assert (x = O) by lia. subst x.
      assert (length a = O) by lia. rewrite H. reflexivity.
Qed.

Lemma replace_named_split a h w :
  keychar h = false -> replace_named (a ++ h :: w) = replace_named a ++ h :: w.
Proof.
  intros Hh. unfold replace_named.
  rewrite (html5_not_key (a ++ h :: w) h); [| apply in_or_app; right; now left | assumption].
  rewrite app_length. cbn [length]. replace (pred (length a + S (length w))) with (length a + length w)%nat by lia.
  rewrite (longest_prefix_beyond a h w Hh) by lia.
  (* at x = length a: the prefix is a itself *)
  destruct (html5_lookup a) as [v|] eqn:Ea.
  - destruct (html5_key_facts a v Ea) as [_ Hl].
    destruct (length a) as [|n] eqn:El; [lia|]. cbn [longest_prefix].
    assert (Nat.leb 2 (S n) = true) as -> by (apply Nat.leb_le; lia).
    rewrite <- El. rewrite firstn_app, firstn_all, Nat.sub_diag. rewrite firstn_O, app_nil_r, Ea.
    rewrite skipn_app, skipn_all, Nat.sub_diag. rewrite skipn_O. reflexivity.
  - destruct (length a) as [|n] eqn:El.
    + cbn [longest_prefix pred]. destruct a; [reflexivity | discriminate].
    + cbn [longest_prefix pred].
      destruct (Nat.leb 2 (S n)) eqn:E2.
      * rewrite <- El. rewrite firstn_app, firstn_all, Nat.sub_diag. rewrite firstn_O, app_nil_r, Ea.
        rewrite (longest_prefix_split a h w Hh n) by lia.
        destruct (longest_prefix n a); [reflexivity|]. reflexivity.
      * apply Nat.leb_gt in E2. assert (n = O) by lia. subst n. cbn [longest_prefix].
        reflexivity.
Qed.

(* ---- generic list-scanner facts ---- *)
Lemma span_max p s : forall a b, span p s = (a, b) -> b = [] \/ exists c b0, b = c :: b0 /\ p c = false.
Proof.
  induction s as [|c s IH]; intros a b H; cbn in H.
  - inversion H. now left.
  - destruct (p c) eqn:E.
    + destruct (span p s) as [a' b'] eqn:E2. inversion H; subst. now apply (IH a' b).
    + inversion H; subst. right. now exists c, s.
Qed.

Lemma take_max_spec p : forall max s run rest,
  take_max p max s = (run, rest) ->
  s = run ++ rest /\ forallb p run = true /\ (length run <= max)%nat /\
  (length run = max \/ rest = [] \/ exists c rest0, rest = c :: rest0 /\ p c = false).
Proof.
  induction max as [|m IH]; intros s run rest H.
  - cbn in H. inversion H; subst. split; [reflexivity|]. split; [reflexivity|]. split; [cbn; lia|]. now left.
  - destruct s as [|c s]; cbn in H.
    + inversion H; subst. split; [reflexivity|]. split; [reflexivity|]. split; [cbn; lia|]. right. now left.
    + destruct (p c) eqn:E.
      * destruct (take_max p m s) as [a b] eqn:E2. inversion H; subst.
        destruct (IH s a rest E2) as (-> & Hf & Hl & Hm). repeat split.
        -- cbn. now rewrite E, Hf.
        -- cbn. lia.
        -- destruct Hm as [Hm|[Hm|Hm]]; [left; cbn; lia | right; now left | right; now right].
      * inversion H; subst. split; [reflexivity|]. split; [reflexivity|]. split; [cbn; lia|].
        right. right. now exists c, s.
Qed.

Lemma take_max_app p : forall max run X,
  forallb p run = true -> (length run <= max)%nat ->
  (length run = max \/ X = [] \/ exists c X0, X = c :: X0 /\ p c = false) ->
  take_max p max (run ++ X) = (run, X).
Proof.
  induction max as [|m IH]; intros run X Hf Hl Hm.
  - destruct run; [|cbn in Hl; lia]. reflexivity.
  - destruct run as [|c run].
    + cbn [app]. destruct Hm as [Hm|[->|(c & X0 & -> & Hc)]]; [cbn in Hm; lia | reflexivity |].
      cbn. now rewrite Hc.
    + cbn in Hf. apply andb_prop in Hf as [Hc Hf]. cbn [app take_max]. rewrite Hc.
      rewrite (IH run X Hf); [reflexivity | cbn in Hl; lia |].
      destruct Hm as [Hm|Hm]; [left; cbn in Hm; lia | now right].
Qed.

Lemma skipn_exact {X} (pre rest : list X) n : length pre = n -> skipn n (pre ++ rest) = rest.
Proof. intros <-. now rewrite skipn_app, skipn_all, Nat.sub_diag, skipn_O. Qed.

Lemma unescape_plain_run w r : ~ In c_amp w -> unescape_go O (w ++ r) = w ++ unescape_go O r.
Proof.
  induction w as [|c w IH]; intros H; [reflexivity|].
  cbn [app]. rewrite unescape_plain; [|intros ->; apply H; now left].
  f_equal. apply IH. intros Hi. apply H. now right.
Qed.

Lemma unescape_amp r :
  unescape_go O (c_amp :: r) =
  match charref_match r with
  | Some (rep, n) => rep ++ unescape_go n r
  | None => c_amp :: unescape_go O r
  end.
Proof. cbn [unescape_go]. now rewrite N.eqb_refl. Qed.

Lemma un_name_char_not_amp w : forallb un_name_char w = true -> ~ In c_amp w.
Proof.
  intros H Hi. rewrite forallb_forall in H. specialize (H _ Hi). vm_compute in H. discriminate.
Qed.

Lemma replace_named_nil : replace_named [] = [c_amp].
Proof. vm_compute. reflexivity. Qed.

(* ================================================================================================ *)
(* a particle pass is transparent to html.unescape                                                   *)
(* ================================================================================================ *)
Section UnescapePass.
  Variable ps : list particle.
  Hypothesis Hent : forallb particle_entity_ok ps = true.
  Hypothesis Hin : forallb particle_inert ps = true.
  Notation sub := (sub_particles ps O).
  Notation U := (unescape_go O).

  Lemma match_head_inert c t p : find_particle ps (c :: t) = Some p -> inert c = true.
  Proof.
    intros H. apply find_particle_some in H as [Hi [rest Hr]].
    rewrite forallb_forall in Hin. destruct (particle_inert_spec p (Hin p Hi)) as (h & tl & Hp & Hh & _).
    rewrite Hp in Hr. cbn in Hr. inversion Hr; subst. exact Hh.
  Qed.

  Lemma sub_noninert c t : inert c = false -> sub (c :: t) = c :: sub t.
  Proof.
    intros H. cbn [sub_particles]. destruct (find_particle ps (c :: t)) as [p|] eqn:E; [|reflexivity].
    apply match_head_inert in E. congruence.
  Qed.

  Lemma sub_run w t : forallb (fun c => negb (inert c)) w = true -> sub (w ++ t) = w ++ sub t.
  Proof.
    induction w as [|c w IH]; intros H; [reflexivity|].
    cbn in H. apply andb_prop in H as [Hc Hw]. apply negb_true_iff in Hc.
    cbn [app]. rewrite sub_noninert by assumption. f_equal. now apply IH.
  Qed.

  (* the head of what the pass writes: the character itself, or the '&' of the reference that replaces it *)
  Lemma sub_head c t :
    sub (c :: t) = c :: sub t \/
    (inert c = true /\ exists name seq rest,
        known_ref name seq /\ c :: t = seq ++ rest /\ ~ In c_amp seq /\
        sub (c :: t) = c_amp :: name ++ c_semi :: sub rest /\ (length rest < length (c :: t))%nat).
  Proof.
    destruct (pass_cases ps Hent c t) as [(p & h & tl & name & rest & Hf & Hp & Hs & Hk & Ho & Hlt)|[Hf Ho]];
      [right | now left].
    split; [now apply (match_head_inert c t p)|].
    exists name, (fst p), rest. split; [assumption|]. split; [assumption|]. split.
    - apply find_particle_some in Hf as [Hi _]. rewrite forallb_forall in Hin.
      destruct (particle_inert_spec p (Hin p Hi)) as (h' & tl' & Hp' & Hh & Htl).
      rewrite Hp'. intros [E|E]; [|now apply Htl]. subst h'. discriminate.
    - split; [|assumption]. rewrite Ho.
      change ((c_amp :: name ++ [c_semi]) ++ sub rest) with (c_amp :: (name ++ [c_semi]) ++ sub rest).
      now rewrite <- app_assoc.
  Qed.

  (* a class of characters none of which is inert, and which excludes '&': runs of it are unaffected *)
  Lemma sub_class_head (Q : N -> bool) : Q c_amp = false -> forall t,
    (t = [] \/ exists c t0, t = c :: t0 /\ Q c = false) ->
    (sub t = [] \/ exists c t0, sub t = c :: t0 /\ Q c = false).
  Proof.
    intros Qa t [->|(c & t0 & -> & Hc)]; [now left|]. right.
    destruct (sub_head c t0) as [E|(_ & name & seq & rest & _ & _ & _ & E & _)]; rewrite E; eauto.
  Qed.

  Lemma span_sub (Q : N -> bool) :
    (forall c, Q c = true -> inert c = false) -> Q c_amp = false ->
    forall t w rest, span Q t = (w, rest) -> span Q (sub t) = (w, sub rest) /\ sub t = w ++ sub rest.
  Proof.
    intros Qi Qa t w rest H. pose proof (span_max _ _ _ _ H) as Hmax.
    apply span_spec in H as [-> Hw].
    assert (Es : sub (w ++ rest) = w ++ sub rest).
    { apply sub_run. rewrite forallb_forall in *. intros x Hx. apply negb_true_iff. apply Qi. now apply Hw. }
    split; [|exact Es]. rewrite Es.
    destruct (sub_class_head Q Qa rest Hmax) as [->|(c & t0 & -> & Hc)].
    - rewrite app_nil_r. now apply span_all.
    - now apply span_stop.
  Qed.

  Lemma starts_semi_sub t : starts_semi (sub t) = starts_semi t.
  Proof.
    destruct t as [|c t]; [reflexivity|].
    destruct (sub_head c t) as [E|(Hi & name & seq & rest & _ & _ & _ & E & _)]; rewrite E; [reflexivity|].
    cbn. destruct (inert_facts c Hi) as (_ & H2 & _). now rewrite H2.
  Qed.

  Lemma digit_noninert c : is_digit c = true -> inert c = false.
  Proof. intros H. unfold inert. now rewrite (digit_namechar c H). Qed.
  Lemma hexd_noninert c : is_hexd c = true -> inert c = false.
  Proof. intros H. unfold inert. now rewrite (hexd_namechar c H). Qed.

  (* both sides take the same match, over a prefix the pass leaves alone *)
  Lemma finish_same r rep n pre rest' :
    (forall t', (length t' <= length r)%nat -> U (sub t') = U t') ->
    r = pre ++ rest' -> length pre = n -> sub r = pre ++ sub rest' ->
    charref_match r = Some (rep, n) -> charref_match (sub r) = Some (rep, n) ->
    U (c_amp :: sub r) = U (c_amp :: r).
  Proof.
    intros IH Hr Hn Hs H1 H2. rewrite !unescape_amp, H1, H2. f_equal.
    rewrite (unescape_skip n (sub r)), (unescape_skip n r), Hs.
    rewrite (skipn_exact pre (sub rest') n Hn).
    replace (skipn n r) with rest' by (rewrite Hr; symmetry; now apply skipn_exact).
    apply IH. rewrite Hr, app_length. lia.
  Qed.

  Lemma finish_none r :
    (forall t', (length t' <= length r)%nat -> U (sub t') = U t') ->
    charref_match r = None -> charref_match (sub r) = None -> U (c_amp :: sub r) = U (c_amp :: r).
  Proof. intros IH H1 H2. rewrite !unescape_amp, H1, H2. f_equal. now apply IH. Qed.
End UnescapePass.

Section UnescapePass2.
  Variable ps : list particle.
  Hypothesis Hent : forallb particle_entity_ok ps = true.
  Hypothesis Hin : forallb particle_inert ps = true.
  Notation sub := (sub_particles ps O).
  Notation U := (unescape_go O).

  Let sub_head' := sub_head ps Hent Hin.
  Let sub_noninert' := sub_noninert ps Hin.

  (* ---- "&#..." ---- *)
  Lemma amp_numeric r1 :
    (forall t', (length t' <= S (length r1))%nat -> U (sub t') = U t') ->
    U (c_amp :: sub (c_hash :: r1)) = U (c_amp :: c_hash :: r1).
  Proof.
    intros IH.
    assert (Hh : sub (c_hash :: r1) = c_hash :: sub r1) by (now apply sub_noninert').
    destruct r1 as [|d r2].
    { apply (finish_none ps); [exact IH | reflexivity | rewrite Hh; reflexivity]. }
    destruct (is_digit d) eqn:Ed.
    - (* decimal *)
      destruct (span is_digit (d :: r2)) as [ds rest] eqn:Es.
      destruct (span_sub ps Hent Hin is_digit (digit_noninert) eq_refl _ _ _ Es) as [Es' Esub].
      pose proof (span_spec _ _ _ _ Es) as [Er _].
      assert (Hd : exists t0, sub (d :: r2) = d :: t0).
      { rewrite (sub_noninert' d r2 (digit_noninert d Ed)). eauto. }
      destruct Hd as [t0 Ht0].
      set (semi := starts_semi rest).
      assert (M1 : charref_match (c_hash :: d :: r2) =
                   Some (replace_numeric (num_of 10 ds), (1 + length ds + (if semi then 1 else 0))%nat)).
      { unfold charref_match. rewrite N.eqb_refl, Ed, Es. reflexivity. }
      assert (M2 : charref_match (sub (c_hash :: d :: r2)) =
                   Some (replace_numeric (num_of 10 ds), (1 + length ds + (if semi then 1 else 0))%nat)).
      { rewrite Hh. unfold charref_match. rewrite N.eqb_refl. rewrite Ht0, Ed, <- Ht0, Es'.
        now rewrite (starts_semi_sub ps Hent Hin). }
      destruct rest as [|c rest0].
      + apply (finish_same ps) with (rep := replace_numeric (num_of 10 ds))
                                   (n := (1 + length ds + 0)%nat) (pre := c_hash :: ds) (rest' := []);
          [exact IH | now rewrite Er | cbn; lia | rewrite Hh, Esub; reflexivity | exact M1 | exact M2].
      + destruct (c =? c_semi) eqn:Ec.
        * apply N.eqb_eq in Ec. subst c.
          assert (Hsemi : sub (c_semi :: rest0) = c_semi :: sub rest0) by (now apply sub_noninert').
          apply (finish_same ps) with (rep := replace_numeric (num_of 10 ds))
                                     (n := (1 + length ds + 1)%nat) (pre := c_hash :: ds ++ [c_semi]) (rest' := rest0).
          -- exact IH.
          -- rewrite Er. cbn. now rewrite <- app_assoc.
          -- cbn. rewrite app_length. cbn. lia.
          -- rewrite Hh, Esub, Hsemi. cbn. now rewrite <- app_assoc.
          -- unfold semi in M1. cbn in M1. exact M1.
          -- unfold semi in M2. cbn in M2. exact M2.
        * apply (finish_same ps) with (rep := replace_numeric (num_of 10 ds))
                                     (n := (1 + length ds + 0)%nat) (pre := c_hash :: ds) (rest' := c :: rest0).
          -- exact IH.
          -- now rewrite Er.
          -- cbn. lia.
          -- rewrite Hh, Esub. reflexivity.
          -- unfold semi in M1. cbn in M1. rewrite Ec in M1. exact M1.
          -- unfold semi in M2. cbn in M2. rewrite Ec in M2. exact M2.
    - destruct ((d =? c_x) || (d =? c_X)) eqn:Ex.
      + (* hexadecimal *)
        assert (Hdn : inert d = false).
        { unfold inert. apply orb_prop in Ex as [E|E]; apply N.eqb_eq in E; subst d; reflexivity. }
        assert (Hd : sub (d :: r2) = d :: sub r2) by (now apply sub_noninert').
        destruct (span is_hexd r2) as [hs rest] eqn:Es.
        destruct (span_sub ps Hent Hin is_hexd (hexd_noninert) eq_refl _ _ _ Es) as [Es' Esub].
        pose proof (span_spec _ _ _ _ Es) as [Er _].
        destruct hs as [|h0 hs0].
        * apply (finish_none ps); [exact IH | |].
          -- unfold charref_match. now rewrite N.eqb_refl, Ed, Ex, Es.
          -- rewrite Hh, Hd. unfold charref_match. now rewrite N.eqb_refl, Ed, Ex, Es'.
        * set (hs := h0 :: hs0) in *. set (semi := starts_semi rest).
          assert (M1 : charref_match (c_hash :: d :: r2) =
                       Some (replace_numeric (num_of 16 hs), (2 + length hs + (if semi then 1 else 0))%nat)).
          { unfold charref_match. rewrite N.eqb_refl, Ed, Ex, Es. reflexivity. }
          assert (M2 : charref_match (sub (c_hash :: d :: r2)) =
                       Some (replace_numeric (num_of 16 hs), (2 + length hs + (if semi then 1 else 0))%nat)).
          { rewrite Hh, Hd. unfold charref_match. rewrite N.eqb_refl, Ed, Ex, Es'.
            now rewrite (starts_semi_sub ps Hent Hin). }
          destruct rest as [|c rest0].
          -- apply (finish_same ps) with (rep := replace_numeric (num_of 16 hs))
                                        (n := (2 + length hs + 0)%nat) (pre := c_hash :: d :: hs) (rest' := []);
               [exact IH | now rewrite Er | cbn; lia | rewrite Hh, Hd, Esub; reflexivity | exact M1 | exact M2].
          -- destruct (c =? c_semi) eqn:Ec.
             ++ apply N.eqb_eq in Ec. subst c.
                assert (Hsemi : sub (c_semi :: rest0) = c_semi :: sub rest0) by (now apply sub_noninert').
                apply (finish_same ps) with (rep := replace_numeric (num_of 16 hs))
                    (n := (2 + length hs + 1)%nat) (pre := c_hash :: d :: hs ++ [c_semi]) (rest' := rest0).
                ** exact IH.
                ** rewrite Er. cbn. now rewrite <- app_assoc.
                ** cbn. rewrite app_length. cbn. lia.
                ** rewrite Hh, Hd, Esub, Hsemi. cbn. now rewrite <- app_assoc.
                ** unfold semi in M1. cbn in M1. exact M1.
                ** unfold semi in M2. cbn in M2. exact M2.
             ++ apply (finish_same ps) with (rep := replace_numeric (num_of 16 hs))
                    (n := (2 + length hs + 0)%nat) (pre := c_hash :: d :: hs) (rest' := c :: rest0).
                ** exact IH.
                ** now rewrite Er.
                ** cbn. lia.
                ** rewrite Hh, Hd, Esub. reflexivity.
                ** unfold semi in M1. cbn in M1. rewrite Ec in M1. exact M1.
                ** unfold semi in M2. cbn in M2. rewrite Ec in M2. exact M2.
      + (* "&#" + something else: no match, before and after *)
        apply (finish_none ps); [exact IH | |].
        * unfold charref_match. now rewrite N.eqb_refl, Ed, Ex.
        * rewrite Hh. unfold charref_match. rewrite N.eqb_refl.
          destruct (sub_head' d r2) as [E|(Hi & name & seq & rest & _ & _ & _ & E & _)]; rewrite E.
          -- now rewrite Ed, Ex.
          -- reflexivity.
  Qed.
End UnescapePass2.

(* the named alternative of html.unescape's pattern, for text that does not start with '#' *)
Definition cm_named_of (X : str) : option (str * nat) :=
  let '(run, rest) := take_max un_name_char 32 X in
  match run with
  | [] => None
  | _ => let s := if starts_semi rest then run ++ [c_semi] else run in Some (replace_named s, length s)
  end.

Lemma cm_named c X0 : (c =? c_hash) = false -> charref_match (c :: X0) = cm_named_of (c :: X0).
Proof. intros H. unfold charref_match, cm_named_of. now rewrite H. Qed.

Section UnescapePass3.
  Variable ps : list particle.
  Hypothesis Hent : forallb particle_entity_ok ps = true.
  Hypothesis Hin : forallb particle_inert ps = true.
  Notation sub := (sub_particles ps O).
  Notation U := (unescape_go O).

  Let sub_head' := sub_head ps Hent Hin.
  Let sub_noninert' := sub_noninert ps Hin.

  (* the name run, split at the first place where a particle matches (if any) *)
  Lemma split_run run rest :
    sub (run ++ rest) = run ++ sub rest \/
    exists a h w name seq rest2,
      run = a ++ h :: w /\ sub (run ++ rest) = a ++ sub (h :: w ++ rest) /\
      inert h = true /\ known_ref name seq /\ h :: w ++ rest = seq ++ rest2 /\
      sub (h :: w ++ rest) = c_amp :: name ++ c_semi :: sub rest2.
  Proof.
    induction run as [|c run IH]; [now left|].
    cbn [app]. destruct (sub_head' c (run ++ rest)) as [E|(Hi & name & seq & rest2 & Hk & Hs & Hna & E & Hl)].
    - rewrite E. destruct IH as [IH|(a & h & w & name & seq & rest2 & Hr & Hs & Hi & Hk & Hsplit & Hsub)].
      + left. now rewrite IH.
      + right. exists (c :: a), h, w, name, seq, rest2. rewrite Hs, Hr.
        split; [reflexivity|]. split; [reflexivity|]. auto.
    - right. exists [], c, run, name, seq, rest2.
      split; [reflexivity|]. split; [reflexivity|]. auto.
  Qed.

  Lemma amp_named h0 r' :
    (h0 =? c_hash) = false ->
    (forall t', (length t' <= S (length r'))%nat -> U (sub t') = U t') ->
    U (c_amp :: sub (h0 :: r')) = U (c_amp :: h0 :: r').
  Proof.
    intros Hh IH.
    destruct (take_max un_name_char 32 (h0 :: r')) as [run rest] eqn:Et.
    destruct (take_max_spec _ _ _ _ _ Et) as (Er & Hf & Hl & Hm).
    pose proof (cm_named h0 r' Hh) as M1. unfold cm_named_of in M1. rewrite Et in M1.
    destruct (split_run run rest) as [EA | (a & h & w & name & seq & rest2 & Erun & Esub & Hi & Hk & Hsplit & Hsubh)].
    - (* nothing matches inside the run *)
      assert (EA' : sub (h0 :: r') = run ++ sub rest) by (rewrite Er; exact EA).
      assert (Hm' : length run = 32%nat \/ sub rest = [] \/ exists c X0, sub rest = c :: X0 /\ un_name_char c = false).
      { destruct Hm as [Hm|Hm]; [now left | right].
        now apply (sub_class_head ps Hent Hin un_name_char eq_refl rest). }
      pose proof (take_max_app un_name_char 32 run (sub rest) Hf Hl Hm') as Et'.
      destruct run as [|c0 run0].
      + (* empty run: no match on either side *)
        apply (finish_none ps); [exact IH | exact M1 |].
        cbn [app] in Er. 
        assert (Hu : un_name_char h0 = false).
        { destruct Hm as [Hm|[Hm|(c & rest0 & Hm & Hc)]]; [discriminate Hm | congruence |].
          rewrite Hm in Er. now inversion Er; subst. }
        destruct (sub_head' h0 r') as [E|(_ & nm & sq & rs & _ & _ & _ & E & _)]; rewrite E.
        * rewrite cm_named by exact Hh. unfold cm_named_of. cbn [take_max]. now rewrite Hu.
        * rewrite cm_named by reflexivity. unfold cm_named_of. cbn [take_max].
          change (un_name_char c_amp) with false. reflexivity.
      + (* the same run on both sides *)
        assert (Hc0 : c0 = h0) by (cbn in Er; now inversion Er). subst c0.
        assert (M2 : charref_match (sub (h0 :: r')) =
                     Some (replace_named (if starts_semi rest then (h0 :: run0) ++ [c_semi] else h0 :: run0),
                           length (if starts_semi rest then (h0 :: run0) ++ [c_semi] else h0 :: run0))).
        { rewrite EA'. cbn [app]. rewrite cm_named by exact Hh.
          unfold cm_named_of. change (h0 :: run0 ++ sub rest) with ((h0 :: run0) ++ sub rest). rewrite Et'.
          now rewrite (starts_semi_sub ps Hent Hin). }
        destruct rest as [|c rest0].
        * apply (finish_same ps) with (rep := replace_named (h0 :: run0)) (n := length (h0 :: run0))
                                     (pre := h0 :: run0) (rest' := []);
            [exact IH | exact Er | reflexivity | exact EA' | exact M1 | exact M2].
        * destruct (c =? c_semi) eqn:Ec.
          -- apply N.eqb_eq in Ec. subst c.
             assert (Hsemi : sub (c_semi :: rest0) = c_semi :: sub rest0) by (now apply sub_noninert').
             apply (finish_same ps) with (rep := replace_named ((h0 :: run0) ++ [c_semi]))
                                        (n := length ((h0 :: run0) ++ [c_semi]))
                                        (pre := (h0 :: run0) ++ [c_semi]) (rest' := rest0).
             ++ exact IH.
             ++ rewrite Er. now rewrite <- app_assoc.
             ++ reflexivity.
             ++ rewrite EA', Hsemi. now rewrite <- app_assoc.
             ++ cbn [starts_semi] in M1. rewrite N.eqb_refl in M1. exact M1.
             ++ cbn [starts_semi] in M2. rewrite N.eqb_refl in M2. exact M2.
          -- apply (finish_same ps) with (rep := replace_named (h0 :: run0)) (n := length (h0 :: run0))
                                        (pre := h0 :: run0) (rest' := c :: rest0).
             ++ exact IH.
             ++ exact Er.
             ++ reflexivity.
             ++ exact EA'.
             ++ cbn [starts_semi] in M1. rewrite Ec in M1. exact M1.
             ++ cbn [starts_semi] in M2. rewrite Ec in M2. exact M2.
    - (* a particle matches inside the run, at h: the run ends there in what the pass writes *)
      assert (Hkh : keychar h = false) by (now apply inert_not_keychar).
      set (w' := if starts_semi rest then w ++ [c_semi] else w).
      set (rest' := match rest with c :: rest0 => if c =? c_semi then rest0 else rest | [] => rest end).
      assert (Hsr : (if starts_semi rest then run ++ [c_semi] else run) = a ++ h :: w').
      { unfold w'. rewrite Erun. destruct (starts_semi rest); [|reflexivity]. now rewrite <- app_assoc. }
      assert (Hrr : h0 :: r' = (a ++ h :: w') ++ rest').
      { rewrite Er, Erun. unfold w', rest'. destruct rest as [|c rest0]; cbn [starts_semi].
        - now rewrite app_nil_r.
        - destruct (c =? c_semi) eqn:Ec; [|reflexivity]. apply N.eqb_eq in Ec. subst c.
          rewrite <- !app_assoc. cbn. now rewrite <- app_assoc. }
      assert (Hnoamp : ~ In c_amp (h :: w')).
      { assert (Hrun : ~ In c_amp run) by (now apply un_name_char_not_amp).
        rewrite Erun in Hrun. intros Hi'. apply Hrun. apply in_or_app. right.
        destruct Hi' as [E|Hi']; [now left|]. right. unfold w' in Hi'.
        destruct (starts_semi rest); [|assumption]. apply in_app_or in Hi' as [Hi'|[E|[]]]; [assumption | discriminate]. }
      (* the original: one match over the whole run *)
      assert (L1 : U (c_amp :: h0 :: r') = replace_named a ++ h :: w' ++ U rest').
      { rewrite unescape_amp. destruct run as [|c0 run0]; [destruct a; discriminate|].
        rewrite M1, Hsr. rewrite (replace_named_split a h w' Hkh). rewrite <- app_assoc. f_equal. cbn [app]. f_equal.
        rewrite unescape_skip, Hrr. now rewrite skipn_app, skipn_all, Nat.sub_diag, skipn_O. }
      (* from h on, the original reads as itself up to the end of the match *)
      assert (E0 : h :: w ++ rest = (h :: w') ++ rest').
      { apply (app_inv_head a). rewrite app_assoc. change (a ++ h :: w') with (a ++ h :: w').
        transitivity (h0 :: r'); [|rewrite Hrr; now rewrite <- !app_assoc].
        rewrite Er, Erun. now rewrite <- app_assoc. }
      assert (L0 : U (h :: w ++ rest) = h :: w' ++ U rest').
      { rewrite E0. now rewrite unescape_plain_run. }
      assert (Hlen : (length (h :: w ++ rest) <= S (length r'))%nat).
      { change (S (length r')) with (length (h0 :: r')). rewrite Er, Erun, <- app_assoc, app_length. cbn [app]. lia. }
      rewrite L1. rewrite Er, Esub, Hsubh.
      destruct a as [|a0 a1].
      + (* the reference comes first: '&' is followed by '&' *)
        cbn [app]. rewrite unescape_amp.
        rewrite cm_named by reflexivity. unfold cm_named_of. cbn [take_max].
        change (un_name_char c_amp) with false. cbv iota.
        rewrite <- Hsubh. rewrite (IH _ Hlen), L0. now rewrite replace_named_nil.
      + assert (Ha0 : a0 = h0) by (rewrite Erun in Er; cbn in Er; now inversion Er). subst a0.
        assert (Hfa : forallb un_name_char (h0 :: a1) = true).
        { rewrite Erun, forallb_app in Hf. now apply andb_prop in Hf as [Hf _]. }
        assert (Hla : (length (h0 :: a1) <= 32)%nat).
        { rewrite Erun, app_length in Hl. lia. }
        rewrite unescape_amp. cbn [app]. rewrite cm_named by exact Hh. unfold cm_named_of.
        change (h0 :: a1 ++ c_amp :: name ++ c_semi :: sub rest2)
          with ((h0 :: a1) ++ c_amp :: name ++ c_semi :: sub rest2).
        rewrite (take_max_app un_name_char 32 (h0 :: a1) _ Hfa Hla)
          by (right; right; eexists; eexists; split; reflexivity).
        cbn [starts_semi]. change (c_amp =? c_semi) with false. cbv iota.
        rewrite unescape_skip, (skipn_exact (h0 :: a1) _ _ eq_refl).
        rewrite <- Hsubh, (IH _ Hlen), L0. reflexivity.
  Qed.
End UnescapePass3.

Section UnescapePass4.
  Variable ps : list particle.
  Hypothesis Hent : forallb particle_entity_ok ps = true.
  Hypothesis Hin : forallb particle_inert ps = true.
  Notation sub := (sub_particles ps O).
  Notation U := (unescape_go O).

  Lemma pass_unescape_n : forall n t, (length t <= n)%nat -> U (sub t) = U t.
  Proof.
    induction n as [|n IH]; intros t Hl.
    - destruct t; [reflexivity | cbn in Hl; lia].
    - destruct t as [|c t']; [reflexivity|]. cbn [length] in Hl.
      destruct (N.eqb_spec c c_amp) as [->|Hc].
      + (* an ampersand of the text *)
        destruct t' as [|h0 r'].
        * now rewrite (sub_noninert ps Hin c_amp [] eq_refl).
        * rewrite (sub_noninert ps Hin c_amp (h0 :: r') eq_refl).
          destruct (N.eqb_spec h0 c_hash) as [->|Hh].
          -- apply (amp_numeric ps Hent Hin r'). intros t0 H0. apply IH. cbn [length] in *. lia.
          -- apply (amp_named ps Hent Hin h0 r'); [now apply N.eqb_neq|].
             intros t0 H0. apply IH. cbn [length] in *. lia.
      + destruct (sub_head ps Hent Hin c t') as [E|(Hi & name & seq & rest & [Hg [_ Hk]] & Hs & Hna & E & Hlt)].
        * rewrite E, !unescape_plain by assumption. f_equal. apply IH. lia.
        * rewrite E, Hs. rewrite (unescape_ref name seq _ Hg Hk), (unescape_plain_run seq rest Hna).
          f_equal. apply IH. cbn [length] in Hlt. lia.
  Qed.

  Theorem pass_unescape t : unescape (sub t) = unescape t.
  Proof. unfold unescape. now apply pass_unescape_n with (n := length t). Qed.
End UnescapePass4.

(* ---- instances: the html5 entity-naming pass, and the quoting's replacement of the double quote ---- *)
Theorem html5_pass_transparent_attr t : unescape (sub_particles html_particles O t) = unescape t.
Proof. apply pass_unescape; [exact particles_entity_tbl | exact particles_inert_tbl]. Qed.

Definition dq_particles : list particle := [([c_dq], [])].

Lemma dq_particles_tbl :
  forallb particle_entity_ok dq_particles = true /\ forallb particle_inert dq_particles = true.
Proof. split; vm_compute; reflexivity. Qed.

Lemma dq_repl : html_entity_repl [c_dq] = s_quot_ent.
Proof. vm_compute. reflexivity. Qed.

Lemma replace_dq_as_pass v : replace_dq v = sub_particles dq_particles O v.
Proof.
  induction v as [|c v IH]; [reflexivity|].
  change (replace_dq (c :: v)) with ((if c =? c_dq then s_quot_ent else [c]) ++ replace_dq v).
  cbn [sub_particles].
  destruct (N.eqb_spec c c_dq) as [->|Hne].
  - assert (Ef : find_particle dq_particles (c_dq :: v) = Some ([c_dq], [])).
    { unfold find_particle, dq_particles. cbn [find]. unfold p_matches. cbn [fst snd prefix_rest].
      rewrite N.eqb_refl. destruct v; reflexivity. }
    rewrite Ef. cbn [fst length pred]. now rewrite dq_repl, IH.
  - assert (Ef : find_particle dq_particles (c :: v) = None).
    { unfold find_particle, dq_particles. cbn [find]. unfold p_matches. cbn [fst snd prefix_rest].
      assert ((c_dq =? c) = false) as -> by (apply N.eqb_neq; congruence). reflexivity. }
    rewrite Ef. cbn [app]. now rewrite IH.
Qed.

Theorem replace_dq_transparent v : unescape (replace_dq v) = unescape v.
Proof. rewrite replace_dq_as_pass. apply pass_unescape; apply dq_particles_tbl. Qed.

(* quoting and reading back is html.unescape, for every text (whatever it contains) *)
Theorem read_quoted_is_unescape o : read_quoted (quoted_attribute_value o) = Some (unescape o).
Proof.
  unfold quoted_attribute_value.
  destruct (memN c_dq o) eqn:E1; [destruct (memN c_sq o) eqn:E2|].
  - rewrite read_quoted_wf; [| now left | apply replace_dq_no_dq]. now rewrite replace_dq_transparent.
  - rewrite read_quoted_wf; [reflexivity | now right | now apply memN_false].
  - rewrite read_quoted_wf; [reflexivity | now left | now apply memN_false].
Qed.

(* for every string: the attribute value read back from substitute_html5 is what html.unescape reads from the
   string with only its "&...;" forms protected *)
Theorem html5_attr_reads_as s :
  read_quoted (quoted_attribute_value (substitute_html5 s)) = Some (unescape (escape_any_entity s)).
Proof. rewrite read_quoted_is_unescape. unfold substitute_html5. now rewrite html5_pass_transparent_attr. Qed.

(* ================================================================================================ *)
(* the round trip in the attribute position                                                          *)
(* ================================================================================================ *)

Lemma span_app_stop (Q : N -> bool) c X : Q c = false -> forall w,
  span Q (w ++ c :: X) = (fst (span Q w), snd (span Q w) ++ c :: X).
Proof.
  intros Hc. induction w as [|a w IH]; cbn.
  - now rewrite Hc.
  - destruct (Q a); [|reflexivity]. rewrite IH. destruct (span Q w); reflexivity.
Qed.

Lemma span_app_nil (Q : N -> bool) w : span Q (w ++ []) = (fst (span Q w), snd (span Q w) ++ []).
Proof. rewrite !app_nil_r. now destruct (span Q w). Qed.

Lemma take_max_app_stop (Q : N -> bool) c X : Q c = false -> forall m w,
  take_max Q m (w ++ c :: X) = (fst (take_max Q m w), snd (take_max Q m w) ++ c :: X).
Proof.
  intros Hc. induction m as [|m IH]; intros w.
  - destruct w; reflexivity.
  - destruct w as [|a w]; cbn.
    + now rewrite Hc.
    + destruct (Q a); [|reflexivity]. rewrite IH. destruct (take_max Q m w); reflexivity.
Qed.

(* an end of the text and an ampersand stop every run in the same way *)
Definition stops (X : str) : Prop := X = [] \/ exists X', X = c_amp :: X'.

Lemma span_stops (Q : N -> bool) X : Q c_amp = false -> stops X -> forall w,
  span Q (w ++ X) = (fst (span Q w), snd (span Q w) ++ X).
Proof.
  intros Qa [->|[X' ->]] w; [apply span_app_nil | now apply span_app_stop].
Qed.

Lemma take_max_stops (Q : N -> bool) X : Q c_amp = false -> stops X -> forall m w,
  take_max Q m (w ++ X) = (fst (take_max Q m w), snd (take_max Q m w) ++ X).
Proof.
  intros Qa [->|[X' ->]] m w; [|now apply take_max_app_stop].
  rewrite !app_nil_r. now destruct (take_max Q m w).
Qed.

Lemma starts_semi_stops b X : stops X -> starts_semi (b ++ X) = starts_semi b.
Proof. intros [->|[X' ->]]; destruct b; reflexivity. Qed.

(* what html.unescape decides at an ampersand depends on the text up to the next ampersand only *)
Lemma charref_match_local w X : stops X -> charref_match (w ++ X) = charref_match w.
Proof.
  intros HX. destruct w as [|h w1].
  - destruct HX as [->|[X' ->]]; reflexivity.
  - cbn [app]. unfold charref_match. destruct (h =? c_hash).
    + destruct w1 as [|d w2].
      * destruct HX as [->|[X' ->]]; reflexivity.
      * cbn [app]. destruct (is_digit d).
        -- change (d :: w2 ++ X) with ((d :: w2) ++ X). rewrite (span_stops is_digit X eq_refl HX).
           destruct (span is_digit (d :: w2)) as [ds rest]. cbn [fst snd]. now rewrite (starts_semi_stops rest X HX).
        -- destruct ((d =? c_x) || (d =? c_X)); [|reflexivity].
           rewrite (span_stops is_hexd X eq_refl HX).
           destruct (span is_hexd w2) as [hs rest]. cbn [fst snd]. now rewrite (starts_semi_stops rest X HX).
    + change (h :: w1 ++ X) with ((h :: w1) ++ X). rewrite (take_max_stops un_name_char X eq_refl HX).
      destruct (take_max un_name_char 32 (h :: w1)) as [run rest]. cbn [fst snd].
      now rewrite (starts_semi_stops rest X HX).
Qed.

Lemma starts_semi_nonempty rest : starts_semi rest = true -> (1 <= length rest)%nat.
Proof. destruct rest; [discriminate | cbn; lia]. Qed.

Lemma charref_match_len r rep n : charref_match r = Some (rep, n) -> (n <= length r)%nat.
Proof.
  unfold charref_match. destruct r as [|h r1]; [discriminate|]. destruct (h =? c_hash).
  - destruct r1 as [|d r2]; [discriminate|]. destruct (is_digit d).
    + destruct (span is_digit (d :: r2)) as [ds rest] eqn:Es. intros H. inversion H; subst.
      apply span_spec in Es as [Es _].
      assert (El : length (d :: r2) = (length ds + length rest)%nat) by (now rewrite Es, app_length).
      cbn [length] in *.
      destruct (starts_semi rest) eqn:E; [apply starts_semi_nonempty in E|]; lia.
    + destruct ((d =? c_x) || (d =? c_X)); [|discriminate].
      destruct (span is_hexd r2) as [hs rest] eqn:Es. destruct hs as [|h0 hs0]; [discriminate|].
      intros H. inversion H; subst. apply span_spec in Es as [Es _].
      assert (El : length r2 = (length (h0 :: hs0) + length rest)%nat) by (now rewrite Es, app_length).
      cbn [length] in *.
      destruct (starts_semi rest) eqn:E; [apply starts_semi_nonempty in E|]; lia.
  - destruct (take_max un_name_char 32 (h :: r1)) as [run rest] eqn:Et.
    destruct run as [|c0 run0]; [discriminate|]. intros H. inversion H; subst.
    apply take_max_spec in Et as (Er & _).
    assert (El : length (h :: r1) = (length (c0 :: run0) + length rest)%nat) by (now rewrite Er, app_length).
    destruct (starts_semi rest) eqn:E; [apply starts_semi_nonempty in E|];
      cbn [length app] in *; rewrite ?app_length; cbn [length]; lia.
Qed.

Lemma unescape_no_amp w : ~ In c_amp w -> unescape_go O w = w.
Proof. intros H. rewrite <- (app_nil_r w) at 1. rewrite unescape_plain_run by assumption. now rewrite app_nil_r. Qed.

Lemma upto_amp_split r : exists X, r = upto_amp r ++ X /\ stops X /\ ~ In c_amp (upto_amp r).
Proof.
  induction r as [|c r (X & Hr & HX & Hn)].
  - exists []. repeat split; [now left | intros []].
  - cbn [upto_amp]. destruct (N.eqb_spec c c_amp) as [->|Hc].
    + exists (c_amp :: r). repeat split; [right; now exists r | intros []].
    + exists X. split; [cbn; now rewrite <- Hr|]. split; [assumption|].
      intros [E|Hi]; [congruence | now apply Hn].
Qed.

(* what the first pass writes after an ampersand agrees with the text up to the next ampersand *)
Lemma esc_loc_upto r : exists X, esc_loc r = upto_amp r ++ X /\ stops X /\
  (forall Y, r = upto_amp r ++ Y -> X = esc_loc Y).
Proof.
  induction r as [|c r (X & Hr & HX & HY)].
  - exists []. repeat split; [now left|]. intros Y HYe. cbn in HYe. now subst.
  - cbn [upto_amp]. destruct (N.eqb_spec c c_amp) as [->|Hc].
    + exists (esc_loc (c_amp :: r)). split; [reflexivity|]. split.
      * right. destruct (esc_loc_cons c_amp r) as (w & Ew & _). rewrite Ew. now exists w.
      * intros Y HYe. cbn in HYe. now subst.
    + exists X. split.
      * cbn [esc_loc]. apply N.eqb_neq in Hc. rewrite Hc. cbn [andb app]. now rewrite Hr.
      * split; [assumption|]. intros Y HYe. cbn [app] in HYe. inversion HYe. now apply HY.
Qed.

Lemma dead_amp_attr_read r :
  dead_amp_attr r = true -> unescape_go O (c_amp :: esc_loc r) = c_amp :: unescape_go O (esc_loc r).
Proof.
  unfold dead_amp_attr. intros H. apply str_eqb_eq in H. unfold unescape in H.
  destruct (esc_loc_upto r) as (X & Hr & HX & _).
  destruct (upto_amp_split r) as (_ & _ & _ & Hn).
  set (w := upto_amp r) in *. rewrite Hr.
  rewrite unescape_amp in *. rewrite (charref_match_local w X HX).
  destruct (charref_match w) as [[rep n]|] eqn:Em.
  - pose proof (charref_match_len _ _ _ Em) as Hlen.
    (* on the bare text: rep ++ (the rest of w) = '&' w *)
    rewrite unescape_skip in H. rewrite (unescape_no_amp (skipn n w)) in H.
    2:{ intros Hi. apply Hn. rewrite <- (firstn_skipn n w). apply in_or_app. now right. }
    rewrite unescape_skip. rewrite skipn_app. replace (n - length w)%nat with O by lia. rewrite skipn_O.
    rewrite unescape_plain_run.
    2:{ intros Hi. apply Hn. rewrite <- (firstn_skipn n w). apply in_or_app. now right. }
    rewrite app_assoc, H. cbn [app]. f_equal. now rewrite unescape_plain_run.
  - reflexivity.
Qed.

Lemma esc_loc_unescape s : no_bare_ref_attr s = true -> unescape_go O (esc_loc s) = s.
Proof.
  induction s as [|c r IH]; intros H; [reflexivity|].
  cbn [no_bare_ref_attr] in H. apply andb_prop in H as [H1 H2]. cbn [esc_loc].
  destruct (c =? c_amp) eqn:Ec; cbn [andb].
  - apply N.eqb_eq in Ec. subst c. destruct (any_entity_match r) as [n|] eqn:Em.
    + change (s_amp_ent ++ esc_loc r) with (c_amp :: n_amp ++ c_semi :: esc_loc r).
      destruct known_amp as [Hg [_ Hl]]. rewrite (unescape_ref n_amp [c_amp] _ Hg Hl). cbn [app]. f_equal. now apply IH.
    + pose proof (dead_amp_attr_read r H1) as Hd. cbn [esc_loc] in Hd.
      transitivity (c_amp :: unescape_go O (esc_loc r)); [|f_equal; now apply IH].
      exact Hd.
  - apply N.eqb_neq in Ec. rewrite unescape_plain by assumption. f_equal. now apply IH.
Qed.

(* every string whose ampersands are all either escaped or left alone by html.unescape reads back unchanged
   from a quoted attribute value *)
Theorem html5_attr_roundtrip s :
  no_bare_ref_attr s = true -> read_quoted (quoted_attribute_value (substitute_html5 s)) = Some s.
Proof.
  intros H. rewrite html5_attr_reads_as, escape_any_entity_loc. f_equal. unfold unescape. now apply esc_loc_unescape.
Qed.

Theorem html5_attr_refuted :
  exists s, no_bare_ref_attr s = false /\ read_quoted (quoted_attribute_value (substitute_html5 s)) <> Some s.
Proof.
  exists html5_witness. split; [vm_compute; reflexivity|]. vm_compute. intros H. discriminate H.
Qed.
