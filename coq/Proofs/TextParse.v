(* C13 — the parse-time half: which class the tree builder (Model/Build.v, the model of
   bs4/__init__.py's pushTag / popTag / endData / string_container / object_was_parsed) gives to
   character data, as a statement about the finished tree.

   Invariant of every reachable builder state: string_container_stack is exactly the open elements
   whose name is a container name, in stack order; the open elements form the parent chain of
   whatever is created next; so a new piece of text takes the class of its nearest enclosing
   container element.  Parent pointers and payloads of existing nodes never change afterwards, so
   in the finished tree: a string of the plain class (0, NavigableString) whose nearest container
   ancestor would have given it another class does not exist. *)
From Coq Require Import List NArith ZArith Bool Arith Lia.
From BS Require Import Base.Sexp Base.Types Gen.T_C13 Model.Heap Model.Edit Model.Build Proofs.HeapBasics.
Import ListNotations.
Local Open Scope nat_scope.

(* ------------------------------------------------------------------ parent pointers are stable *)
Lemma par_upd_other h x c y : y <> x -> par (upd h x c y) = par (h y).
Proof. intros H. now rewrite upd_other. Qed.

Lemma par_setup h x parent previous y :
  par (setup h x parent previous y) = if Nat.eqb y x then parent else par (h y).
Proof.
  unfold setup. cbv zeta.
  repeat match goal with
         | |- context [match ?e with Some _ => _ | None => _ end] => destruct e
         end; autorewrite with heap;
  (destruct (Nat.eqb y x) eqn:E;
   [apply Nat.eqb_eq in E; subst; now autorewrite with heap
   |apply Nat.eqb_neq in E; now rewrite par_set_par_other]).
Qed.

Lemma kind_setup h x parent previous y : kind (setup h x parent previous y) = kind (h y).
Proof.
  unfold setup. cbv zeta.
  repeat match goal with
         | |- context [match ?e with Some _ => _ | None => _ end] => destruct e
         end; now autorewrite with heap.
Qed.

Lemma par_fixer_walk fuel : forall h target d c y, par (fixer_walk fuel h target d c y) = par (h y).
Proof.
  induction fuel as [|f IH]; intros h target d c y; cbn [fixer_walk]; [reflexivity|].
  destruct target as [t|]; [|reflexivity].
  destruct (ns (h t)); [now autorewrite with heap|apply IH].
Qed.

Lemma kind_fixer_walk fuel : forall h target d c y, kind (fixer_walk fuel h target d c y) = kind (h y).
Proof.
  induction fuel as [|f IH]; intros h target d c y; cbn [fixer_walk]; [reflexivity|].
  destruct target as [t|]; [|reflexivity].
  destruct (ns (h t)); [now autorewrite with heap|apply IH].
Qed.

Lemma par_linkage_fixer fuel h el y : par (linkage_fixer fuel h el y) = par (h y).
Proof.
  unfold linkage_fixer.
  destruct (kids (h el)) as [|first rest]; [reflexivity|].
  destruct (last_opt (first :: rest)) as [child|]; [|reflexivity].
  cbv zeta. rewrite par_fixer_walk.
  repeat match goal with
         | |- context [if ?b then _ else _] => destruct b
         | |- context [match ?e with Some _ => _ | None => _ end] => destruct e
         end; now autorewrite with heap.
Qed.

Lemma kind_linkage_fixer fuel h el y : kind (linkage_fixer fuel h el y) = kind (h y).
Proof.
  unfold linkage_fixer.
  destruct (kids (h el)) as [|first rest]; [reflexivity|].
  destruct (last_opt (first :: rest)) as [child|]; [|reflexivity].
  cbv zeta. rewrite kind_fixer_walk.
  repeat match goal with
         | |- context [if ?b then _ else _] => destruct b
         | |- context [match ?e with Some _ => _ | None => _ end] => destruct e
         end; now autorewrite with heap.
Qed.

(* ------------------------------------------------------------------ the invariant *)
Section Parse.
  Variable cfg : bconfig.

  Definition cont_class (pay : pmap) (t : nat) : option N := assocS (p_name (pay t)) (c_containers cfg).
  Definition is_cont (pay : pmap) (t : nat) : bool :=
    match cont_class pay t with Some _ => true | None => false end.

  (* l = [x1; x2; ...; r]: each element's parent is the next one, the last has none *)
  Fixpoint chain_ok (h : heap) (l : list nat) : Prop :=
    match l with
    | [] => True
    | a :: rest => match rest with [] => par (h a) = None | b :: _ => par (h a) = Some b end /\ chain_ok h rest
    end.

  (* the class the nearest container on the path would give to plain text (0 when there is none) *)
  Definition nearest_class (pay : pmap) (path : list nat) : N :=
    match filter (is_cont pay) path with
    | [] => 0%N
    | t :: _ => match cont_class pay t with Some c => c | None => 0%N end
    end.

  Definition is_string_node (h : heap) (x : nat) : bool :=
    match kind (h x) with KStr _ => true | _ => false end.

  (* a plain-class string sits where plain text gets the plain class *)
  Definition plain_ok (h : heap) (pay : pmap) (n : nat) (x : nat) : Prop :=
    is_string_node h x = true -> p_cls (pay x) = 0%N ->
    exists path, par (h x) = hd_error path /\ chain_ok h path /\ Forall (fun a => a < n) path /\
                 nearest_class pay path = 0%N.

  Record Inv (b : bstate) : Prop := mkInv {
    inv_scs : b_scs b = filter (is_cont (b_pay b)) (b_stack b);
    inv_lt : Forall (fun t => t < nxt (b_st b)) (b_stack b);
    inv_nodup : NoDup (b_stack b);
    inv_chain : chain_ok (hp (b_st b)) (b_stack b);
    inv_cur : b_cur b = hd_error (b_stack b);
    inv_ne : b_stack b <> [];
    inv_strs : forall x, x < nxt (b_st b) -> plain_ok (hp (b_st b)) (b_pay b) (nxt (b_st b)) x
  }.

  (* ---- transport lemmas: facts about existing nodes survive changes elsewhere ---- *)
  Lemma chain_ok_ext h h' l :
    (forall a, In a l -> par (h' a) = par (h a)) -> chain_ok h l -> chain_ok h' l.
  Proof.
    induction l as [|a rest IH]; intros Hp H; [exact I|].
    destruct H as (Ha & Hrest). split.
    - rewrite Hp by (left; reflexivity). exact Ha.
    - apply IH; [|exact Hrest]. intros c Hc. apply Hp. right. exact Hc.
  Qed.

  Lemma filter_cont_ext pay pay' l :
    (forall a, In a l -> p_name (pay' a) = p_name (pay a)) ->
    filter (is_cont pay') l = filter (is_cont pay) l.
  Proof.
    intros H. induction l as [|a rest IH]; [reflexivity|].
    cbn [filter].
    assert (E : is_cont pay' a = is_cont pay a).
    { unfold is_cont, cont_class. now rewrite H by (left; reflexivity). }
    rewrite E, IH by (intros c Hc; apply H; right; exact Hc). reflexivity.
  Qed.

  Lemma nearest_class_ext pay pay' l :
    (forall a, In a l -> p_name (pay' a) = p_name (pay a)) ->
    nearest_class pay' l = nearest_class pay l.
  Proof.
    intros H. unfold nearest_class. rewrite (filter_cont_ext pay pay' l H).
    destruct (filter (is_cont pay) l) as [|t r] eqn:E; [reflexivity|].
    assert (Ht : In t l).
    { assert (In t (filter (is_cont pay) l)) by (rewrite E; left; reflexivity).
      apply filter_In in H0. tauto. }
    unfold cont_class. now rewrite H.
  Qed.

  Lemma plain_ok_ext h h' pay pay' n n' x :
    n <= n' -> x < n ->
    (forall a, a < n -> par (h' a) = par (h a)) ->
    (forall a, a < n -> kind (h' a) = kind (h a)) ->
    (forall a, a < n -> pay' a = pay a) ->
    plain_ok h pay n x -> plain_ok h' pay' n' x.
  Proof.
    intros Hn Hx Hpar Hkind Hpay H Hs Hc.
    unfold is_string_node in Hs. rewrite Hkind in Hs by exact Hx. rewrite Hpay in Hc by exact Hx.
    destruct (H Hs Hc) as (path & Hp & Hch & Hlt & Hnear).
    exists path. repeat split.
    - rewrite Hpar by exact Hx. exact Hp.
    - apply (chain_ok_ext h h' path); [|exact Hch].
      intros a Ha. apply Hpar. rewrite Forall_forall in Hlt. now apply Hlt.
    - rewrite Forall_forall in *. intros a Ha. specialize (Hlt a Ha). lia.
    - rewrite <- Hnear. apply nearest_class_ext. intros a Ha. rewrite Hpay; [reflexivity|].
      rewrite Forall_forall in Hlt. now apply Hlt.
  Qed.

  (* ---- pushTag / popTag ---- *)
  Lemma filter_head_notin (f : nat -> bool) tag rest t r :
    ~ In tag rest -> filter f rest = t :: r -> Nat.eqb tag t = false.
  Proof.
    intros Hn E. apply Nat.eqb_neq. intros ->. apply Hn.
    assert (In t (filter f rest)) by (rewrite E; left; reflexivity).
    apply filter_In in H. tauto.
  Qed.

  Lemma pop_tag_inv b : Inv b -> 2 <= length (b_stack b) -> Inv (pop_tag b).
  Proof.
    intros [Hscs Hlt Hnd Hch Hcur Hne Hstr] Hlen. unfold pop_tag.
    destruct (b_stack b) as [|tag rest] eqn:Es; [cbn in Hlen; lia|].
    destruct rest as [|t1 rest']; [cbn in Hlen; lia|].
    inversion Hnd as [|? ? Hnotin Hnd']; subst.
    inversion Hlt as [|? ? _ Hlt']; subst.
    constructor; cbn [b_scs b_stack b_st b_pay b_cur].
    - rewrite Hscs. remember (t1 :: rest') as R eqn:ER. cbn [filter].
      destruct (is_cont (b_pay b) tag) eqn:Ec.
      + rewrite Nat.eqb_refl. reflexivity.
      + destruct (filter (is_cont (b_pay b)) R) as [|t r] eqn:Ef; [reflexivity|].
        rewrite (filter_head_notin _ tag R t r Hnotin Ef). reflexivity.
    - exact Hlt'.
    - exact Hnd'.
    - destruct Hch as (_ & Hch'). exact Hch'.
    - reflexivity.
    - discriminate.
    - exact Hstr.
  Qed.

  Lemma push_tag_inv b tag :
    Inv b -> tag < nxt (b_st b) -> ~ In tag (b_stack b) ->
    par (hp (b_st b) tag) = hd_error (b_stack b) ->
    Inv (push_tag cfg b tag).
  Proof.
    intros [Hscs Hlt Hnd Hch Hcur Hne Hstr] Htag Hnotin Hpar. unfold push_tag.
    set (h' := match b_cur b with Some c => set_kids _ c _ | None => hp (b_st b) end).
    assert (Hp' : forall y, par (h' y) = par (hp (b_st b) y)).
    { intros y. unfold h'. destruct (b_cur b); [now autorewrite with heap|reflexivity]. }
    assert (Hk' : forall y, kind (h' y) = kind (hp (b_st b) y)).
    { intros y. unfold h'. destruct (b_cur b); [now autorewrite with heap|reflexivity]. }
    constructor; cbn [b_scs b_stack b_st b_pay b_cur with_heap hp nxt].
    - cbn [filter]. unfold is_cont at 1, cont_class, name_of. rewrite Hscs.
      destruct (assocS (p_name (b_pay b tag)) (c_containers cfg)); reflexivity.
    - constructor; assumption.
    - constructor; assumption.
    - cbn [chain_ok]. split.
      + rewrite Hp', Hpar. destruct (b_stack b); [congruence|reflexivity].
      + apply (chain_ok_ext (hp (b_st b))); [intros; apply Hp'|exact Hch].
    - reflexivity.
    - discriminate.
    - intros x Hx. apply (plain_ok_ext (hp (b_st b)) h' (b_pay b) (b_pay b) (nxt (b_st b))); auto.
  Qed.

  (* ---- endData ---- *)
  Lemma string_container_nearest b base :
    b_scs b = filter (is_cont (b_pay b)) (b_stack b) ->
    string_container cfg b base =
    (let c0 := match base with Some c => c | None => 0%N end in
     if N.eqb c0 0 then nearest_class (b_pay b) (b_stack b) else c0).
  Proof.
    intros Hscs. unfold string_container, nearest_class. rewrite Hscs. cbv zeta.
    set (c0 := match base with Some c => c | None => 0%N end).
    destruct (filter (is_cont (b_pay b)) (b_stack b)) as [|t r] eqn:Ef.
    - destruct (N.eqb c0 0) eqn:E; [apply N.eqb_eq in E; exact E|reflexivity].
    - destruct (N.eqb c0 0) eqn:E; [|reflexivity].
      unfold cont_class, name_of. apply N.eqb_eq in E. rewrite E.
      destruct (assocS (p_name (b_pay b t)) (c_containers cfg)); reflexivity.
  Qed.

  Lemma end_data_inv b container : Inv b -> Inv (end_data cfg b container).
  Proof.
    intros HI. pose proof HI as [Hscs Hlt Hnd Hch Hcur Hne Hstr]. unfold end_data.
    destruct (b_data b) as [|d0 ds] eqn:Ed; [exact HI|].
    match goal with |- context [alloc (b_st b) _ ?t] => generalize t; intros cur end.
    set (cls := string_container cfg b container).
    unfold alloc. cbv beta iota zeta.
    set (o := nxt (b_st b)).
    unfold object_was_parsed. cbn [b_cur b_st b_pay b_stack b_counter b_pws b_scs b_data b_mre].
    destruct (b_stack b) as [|parent rest] eqn:Es; [congruence|].
    rewrite Hcur. cbn [hd_error].
    cbn [hp nxt with_heap fuel_of].
    set (h0 := upd (hp (b_st b)) o (blank (KStr (preformatted_cls cls)) cur)).
    set (h1 := setup h0 o (Some parent) (b_mre b)).
    set (h2 := set_kids h1 parent (kids (h1 parent) ++ [o])).
    set (h3 := if match ne (h0 parent) with Some _ => true | None => false end
               then linkage_fixer (S (S o)) h2 parent else h2).
    assert (Hpar : forall y, par (h3 y) = if Nat.eqb y o then Some parent else par (hp (b_st b) y)).
    { intros y. unfold h3. destruct (match ne (h0 parent) with Some _ => true | None => false end);
        [rewrite par_linkage_fixer|]; unfold h2; rewrite par_set_kids; unfold h1; rewrite par_setup;
        (destruct (Nat.eqb y o) eqn:E; [reflexivity|]); unfold h0; apply Nat.eqb_neq in E; now rewrite upd_other. }
    assert (Hkind : forall y, y <> o -> kind (h3 y) = kind (hp (b_st b) y)).
    { intros y Hy. unfold h3. destruct (match ne (h0 parent) with Some _ => true | None => false end);
        [rewrite kind_linkage_fixer|]; unfold h2; rewrite kind_set_kids; unfold h1; rewrite kind_setup;
        unfold h0; now rewrite upd_other. }
    assert (Hlt_o : forall a, In a (parent :: rest) -> a < o).
    { rewrite Forall_forall in Hlt. exact Hlt. }
    assert (Hold : forall a, a < o -> Nat.eqb a o = false) by (intros a Ha; apply Nat.eqb_neq; lia).
    assert (Hchain : chain_ok h3 (parent :: rest)).
    { apply (chain_ok_ext (hp (b_st b))); [|exact Hch].
      intros a Ha. rewrite Hpar, Hold; [reflexivity|]. now apply Hlt_o. }
    constructor; cbn [b_scs b_stack b_st b_pay b_cur hp nxt with_heap fuel_of].
    - rewrite Hscs. symmetry. apply filter_cont_ext. intros a Ha. unfold pupd.
      rewrite Hold; [reflexivity|]. now apply Hlt_o.
    - rewrite Forall_forall. intros a Ha. specialize (Hlt_o a Ha). unfold o in *. lia.
    - exact Hnd.
    - exact Hchain.
    - reflexivity.
    - discriminate.
    - intros x Hx. change (plain_ok h3 (pupd (b_pay b) o (mkpl cur None [] cls false)) (S o) x).
      destruct (Nat.eq_dec x o) as [->|Hxo].
      + (* the new string *)
        intros _ Hcls. unfold pupd in Hcls. rewrite Nat.eqb_refl in Hcls. cbn [p_cls] in Hcls.
        exists (parent :: rest). split; [|split; [|split]].
        * rewrite Hpar, Nat.eqb_refl. reflexivity.
        * exact Hchain.
        * rewrite Forall_forall. intros a Ha. specialize (Hlt_o a Ha). unfold o in *. lia.
        * unfold cls in Hcls. rewrite string_container_nearest in Hcls by (rewrite Es; exact Hscs).
          cbv zeta in Hcls. rewrite Es in Hcls.
          rewrite (nearest_class_ext (b_pay b)).
          -- destruct (N.eqb _ 0) eqn:E in Hcls; [exact Hcls|].
             apply N.eqb_neq in E. congruence.
          -- intros a Ha. unfold pupd. rewrite Hold; [reflexivity|]. now apply Hlt_o.
      + assert (Hlt_x : x < o) by (unfold o in *; lia).
        apply (plain_ok_ext (hp (b_st b)) h3 (b_pay b) _ o (S o) x); auto.
        * intros a Ha. rewrite Hpar, Hold; auto.
        * intros a Ha. apply Hkind. lia.
        * intros a Ha. unfold pupd. rewrite Hold; auto.
  Qed.

  (* ---- handle_starttag ---- *)
  Lemma handle_starttag_inv b name prefix attrs : Inv b -> Inv (handle_starttag cfg b name prefix attrs).
  Proof.
    intros HI0. unfold handle_starttag.
    pose proof (end_data_inv b None HI0) as HI. set (b1 := end_data cfg b None) in *. clearbody b1. clear HI0 b.
    pose proof HI as [Hscs Hlt Hnd Hch Hcur Hne Hstr].
    unfold alloc. cbv beta iota zeta.
    set (n := nxt (b_st b1)).
    set (pay' := pupd (b_pay b1) n (mkpl name prefix attrs 0%N (can_be_empty cfg name))).
    set (h0 := upd (hp (b_st b1)) n (blank KTag name)).
    cbn [hp nxt].
    set (h1 := setup h0 n (b_cur b1) (b_mre b1)).
    set (h2 := match b_mre b1 with Some q => set_ne h1 q (Some n) | None => h1 end).
    assert (Hlt_n : forall a, In a (b_stack b1) -> a < n).
    { rewrite Forall_forall in Hlt. exact Hlt. }
    assert (Hold : forall a, a < n -> Nat.eqb a n = false) by (intros a Ha; apply Nat.eqb_neq; lia).
    assert (Hpar : forall y, par (h2 y) = if Nat.eqb y n then b_cur b1 else par (hp (b_st b1) y)).
    { intros y. unfold h2. destruct (b_mre b1); [rewrite par_set_ne|]; unfold h1; rewrite par_setup;
        (destruct (Nat.eqb y n) eqn:E; [reflexivity|]); unfold h0; apply Nat.eqb_neq in E; now rewrite upd_other. }
    assert (Hkind : forall y, kind (h2 y) = if Nat.eqb y n then KTag else kind (hp (b_st b1) y)).
    { intros y. unfold h2. destruct (b_mre b1); [rewrite kind_set_ne|]; unfold h1; rewrite kind_setup; unfold h0, upd;
        destruct (Nat.eqb y n); reflexivity. }
    apply push_tag_inv; cbn [b_st b_stack b_pay b_cur b_scs hp nxt with_heap].
    - constructor; cbn [b_scs b_stack b_st b_pay b_cur hp nxt with_heap].
      + rewrite Hscs. symmetry. apply filter_cont_ext. intros a Ha. unfold pay', pupd.
        rewrite Hold; [reflexivity|]. now apply Hlt_n.
      + rewrite Forall_forall. intros a Ha. specialize (Hlt_n a Ha). unfold n in *. lia.
      + exact Hnd.
      + apply (chain_ok_ext (hp (b_st b1))); [|exact Hch].
        intros a Ha. change (par (h2 a) = par (hp (b_st b1) a)). rewrite Hpar, Hold; [reflexivity|]. now apply Hlt_n.
      + exact Hcur.
      + exact Hne.
      + intros x Hx. change (plain_ok h2 pay' (S n) x).
        destruct (Nat.eq_dec x n) as [->|Hxn].
        * intros Hs. unfold is_string_node in Hs. rewrite Hkind, Nat.eqb_refl in Hs. discriminate.
        * assert (Hlt_x : x < n) by (unfold n in *; lia).
          apply (plain_ok_ext (hp (b_st b1)) h2 (b_pay b1) pay' n (S n) x); auto.
          -- intros a Ha. rewrite Hpar, Hold; auto.
          -- intros a Ha. rewrite Hkind, Hold; auto.
          -- intros a Ha. unfold pay', pupd. rewrite Hold; auto.
    - unfold n. lia.
    - intros Hin. specialize (Hlt_n n Hin). lia.
    - change (par (h2 n) = hd_error (b_stack b1)). rewrite Hpar, Nat.eqb_refl. exact Hcur.
  Qed.

  (* ---- _popToTag ---- *)
  Lemma pop_tag_length b : length (b_stack (pop_tag b)) = pred (length (b_stack b)).
  Proof. unfold pop_tag. destruct (b_stack b) eqn:E; cbn [b_stack]; [rewrite E|]; reflexivity. Qed.

  Lemma pop_loop_inv n : forall b name prefix, Inv b -> n < length (b_stack b) -> Inv (pop_loop n b name prefix).
  Proof.
    induction n as [|n IH]; intros b name prefix HI Hn; cbn [pop_loop]; [exact HI|].
    destruct (cget name (b_counter b)); [|exact HI].
    destruct (Z.eqb z 0); [exact HI|].
    destruct (b_stack b) as [|t rest] eqn:Es; [exact HI|].
    assert (H2 : 2 <= length (b_stack b)) by (rewrite Es; cbn [length] in *; lia).
    destruct (_ && _).
    - apply pop_tag_inv; assumption.
    - apply IH; [apply pop_tag_inv; assumption|].
      rewrite pop_tag_length, Es. cbn [length] in *. lia.
  Qed.

  Lemma pop_to_tag_inv b name prefix : Inv b -> Inv (pop_to_tag cfg b name prefix).
  Proof.
    intros HI. unfold pop_to_tag.
    (* whatever guards come first (root name, "not open under this prefix"): they return b unchanged *)
    repeat match goal with |- Inv (if ?c then _ else _) => destruct c; [exact HI|] end.
    apply pop_loop_inv; [exact HI|].
    destruct HI as [_ _ _ _ _ Hne _]. destruct (b_stack b); [congruence|cbn; lia].
  Qed.

  Lemma handle_data_inv b s : Inv b -> Inv (handle_data b s).
  Proof. intros [H1 H2 H3 H4 H5 H6 H7]. constructor; assumption. Qed.

  Lemma step_event_inv b e : Inv b -> Inv (step_event cfg b e).
  Proof.
    intros HI. destruct e; cbn [step_event].
    - now apply handle_starttag_inv.
    - unfold handle_endtag. apply pop_to_tag_inv. now apply end_data_inv.
    - now apply handle_data_inv.
    - now apply end_data_inv.
  Qed.

  Lemma reset_inv : Inv (reset cfg).
  Proof.
    unfold reset, alloc, push_tag. cbv beta iota zeta. cbn [b_cur b_st hp nxt b_pay b_stack b_scs fst snd].
    constructor; cbn [b_scs b_stack b_st b_pay b_cur hp nxt with_heap].
    - cbn [filter]. unfold is_cont, cont_class, name_of. cbn [b_pay].
      destruct (assocS _ (c_containers cfg)); reflexivity.
    - constructor; [lia|constructor].
    - constructor; [intros []|constructor].
    - cbn [chain_ok]. split; [|exact I]. unfold upd. cbn. reflexivity.
    - reflexivity.
    - discriminate.
    - intros x Hx Hs. assert (x = 0) by lia. subst x.
      unfold is_string_node, upd in Hs. cbn in Hs. discriminate.
  Qed.

  Lemma fold_inv evs : forall b, Inv b -> Inv (fold_left (step_event cfg) evs b).
  Proof. induction evs as [|e evs IH]; intros b HI; [exact HI|]. cbn [fold_left]. apply IH. now apply step_event_inv. Qed.

  (* every state a parse passes through *)
  Theorem reachable_inv : forall evs, Inv (fold_left (step_event cfg) evs (reset cfg)).
  Proof. intros evs. apply fold_inv. apply reset_inv. Qed.

  (* popping at end of input touches neither the heap nor the payloads *)
  Lemma pop_tag_keeps b : b_st (pop_tag b) = b_st b /\ b_pay (pop_tag b) = b_pay b.
  Proof. unfold pop_tag. destruct (b_stack b) eqn:E; split; reflexivity. Qed.

  Lemma pop_all_keeps n : forall b, b_st (pop_all n cfg b) = b_st b /\ b_pay (pop_all n cfg b) = b_pay b.
  Proof.
    induction n as [|n IH]; intros b; cbn [pop_all]; [split; reflexivity|].
    destruct (b_cur b); [|split; reflexivity].
    match goal with |- context [if ?c then _ else _] => destruct c end; [split; reflexivity|].
    destruct (IH (pop_tag b)) as (H1 & H2). destruct (pop_tag_keeps b) as (H3 & H4).
    split; congruence.
  Qed.

  (* ---- ancestors ---- *)
  Inductive anc (h : heap) : nat -> nat -> Prop :=
  | anc_parent : forall x p, par (h x) = Some p -> anc h x p
  | anc_up : forall x p a, par (h x) = Some p -> anc h p a -> anc h x a.

  Lemma chain_ok_tail h p rest : chain_ok h (p :: rest) -> par (h p) = hd_error rest /\ chain_ok h rest.
  Proof. cbn [chain_ok]. intros (H1 & H2). split; [|exact H2]. destruct rest; exact H1. Qed.

  Lemma anc_in_path h x a : anc h x a -> forall path, par (h x) = hd_error path -> chain_ok h path -> In a path.
  Proof.
    induction 1 as [x p Hp|x p a Hp _ IH]; intros path Hhd Hch.
    - rewrite Hp in Hhd. destruct path as [|q r]; [discriminate|]. inversion Hhd; subst. left; reflexivity.
    - rewrite Hp in Hhd. destruct path as [|q r]; [discriminate|]. inversion Hhd; subst.
      destruct (chain_ok_tail h q r Hch) as (Hq & Hr). right. apply IH; assumption.
  Qed.

  Lemma filter_nil_false {X} (f : X -> bool) l a : filter f l = [] -> In a l -> f a = false.
  Proof.
    intros E Hin. destruct (f a) eqn:Fa; [|reflexivity].
    assert (In a (filter f l)) by (apply filter_In; split; assumption). rewrite E in H. destruct H.
  Qed.

  (* ---- the finished tree ---- *)
  Theorem parsed_plain_text_placement : forall evs x,
    let b := feed cfg evs in
    x < nxt (b_st b) -> plain_ok (hp (b_st b)) (b_pay b) (nxt (b_st b)) x.
  Proof.
    intros evs x. unfold feed. cbv zeta.
    set (b1 := fold_left (step_event cfg) evs (reset cfg)).
    set (b2 := end_data cfg b1 None).
    destruct (pop_all_keeps (length (b_stack b2)) b2) as (E1 & E2). rewrite E1, E2.
    assert (HI : Inv b2) by (apply end_data_inv, reachable_inv).
    destruct HI as [_ _ _ _ _ _ Hstr]. apply Hstr.
  Qed.

  (* when no container gives the plain class (true of the shipped table), a plain-class string has
     no container element among its ancestors *)
  Theorem parsed_plain_text_outside_containers : forall evs x a,
    (forall name c, assocS name (c_containers cfg) = Some c -> c <> 0%N) ->
    let b := feed cfg evs in
    x < nxt (b_st b) -> is_string_node (hp (b_st b)) x = true -> p_cls (b_pay b x) = 0%N ->
    anc (hp (b_st b)) x a -> cont_class (b_pay b) a = None.
  Proof.
    intros evs x a Hnz b Hx Hs Hc Hanc.
    destruct (parsed_plain_text_placement evs x Hx Hs Hc) as (path & Hp & Hch & _ & Hnear).
    fold b in Hp, Hch, Hnear.
    pose proof (anc_in_path _ _ _ Hanc path Hp Hch) as Hin.
    unfold nearest_class in Hnear.
    destruct (filter (is_cont (b_pay b)) path) as [|t r] eqn:Ef.
    - pose proof (filter_nil_false _ _ a Ef Hin) as Hf. unfold is_cont in Hf.
      destruct (cont_class (b_pay b) a); [discriminate|reflexivity].
    - exfalso. assert (Ht : In t (filter (is_cont (b_pay b)) path)) by (rewrite Ef; left; reflexivity).
      apply filter_In in Ht. destruct Ht as (_ & Ht). unfold is_cont in Ht.
      destruct (cont_class (b_pay b) t) as [c|] eqn:Ec; [|discriminate].
      unfold cont_class in Ec. apply Hnz in Ec. congruence.
  Qed.

  (* at every point of every parse: the open elements are the parent chain of whatever is created
     next (its parent is the top), and text takes the class of the nearest open container element
     unless a special class was asked for *)
  Theorem text_takes_nearest_container_class : forall evs base,
    let b := fold_left (step_event cfg) evs (reset cfg) in
    string_container cfg b base =
      (let c0 := match base with Some c => c | None => 0%N end in
       if N.eqb c0 0 then nearest_class (b_pay b) (b_stack b) else c0) /\
    b_cur b = hd_error (b_stack b) /\ chain_ok (hp (b_st b)) (b_stack b).
  Proof.
    intros evs base b. destruct (reachable_inv evs) as [Hscs _ _ Hch Hcur _ _]. fold b in Hscs, Hch, Hcur.
    split; [apply string_container_nearest; exact Hscs|split; assumption].
  Qed.
End Parse.

(* a table none of whose classes is the plain class *)
Lemma assocS_forallb {X} (f : X -> bool) (l : list (str * X)) name c :
  forallb (fun kc => f (snd kc)) l = true -> assocS name l = Some c -> f c = true.
Proof.
  induction l as [|[k v] l IH]; cbn [forallb assocS snd]; [discriminate|].
  intros H E. apply andb_prop in H as [Hv Hl].
  destruct (str_eqb name k); [inversion E; subst; exact Hv|now apply IH].
Qed.

(* the shipped table (regenerated from the code): no container gives the plain class, so in a parsed
   tree no ancestor of a plain-class string is a container element *)
Theorem parsed_plain_text_outside_html_containers : forall cfg evs x a,
  c_containers cfg = html_string_containers ->
  let b := feed cfg evs in
  x < nxt (b_st b) -> is_string_node (hp (b_st b)) x = true -> p_cls (b_pay b x) = 0%N ->
  anc (hp (b_st b)) x a -> assocS (p_name (b_pay b a)) (c_containers cfg) = None.
Proof.
  intros cfg evs x a Hc. apply parsed_plain_text_outside_containers.
  intros name c E. rewrite Hc in E.
  pose proof (assocS_forallb (fun c => negb (N.eqb c 0)) html_string_containers name c eq_refl E) as H.
  apply negb_true_iff, N.eqb_neq in H. exact H.
Qed.
