(* C03 — the tree-construction state machine of Model/Build.v refines the documented rules of
   Spec/BuildSpec.v. *)
From Coq Require Import List NArith ZArith Bool Arith Lia.
From BS Require Import Base.Sexp Base.Types Model.Heap Model.Edit Model.Build Spec.BuildSpec Proofs.HeapBasics.
Import ListNotations.
Local Open Scope nat_scope.

(* ------------------------------------------------------------------------------------------ *)
(* strings *)
Lemma str_eqb_refl a : str_eqb a a = true.
Proof. now apply str_eqb_eq. Qed.
Lemma str_eqb_neq a b : str_eqb a b = false <-> a <> b.
Proof.
  split.
  - intros H E. apply str_eqb_eq in E. congruence.
  - intros H. destruct (str_eqb a b) eqn:E; [|reflexivity]. apply str_eqb_eq in E. contradiction.
Qed.

(* ------------------------------------------------------------------------------------------ *)
(* the counter *)
Lemma cget_cadd_same k d c :
  cget k (cadd k d c) = Some (match cget k c with Some v => (v + d)%Z | None => d end).
Proof.
  unfold cget. induction c as [|[k' v] c IH]; cbn.
  - now rewrite str_eqb_refl.
  - destruct (str_eqb k k') eqn:E; cbn; rewrite E; [reflexivity|exact IH].
Qed.
Lemma cget_cadd_other k k' d c : k' <> k -> cget k' (cadd k d c) = cget k' c.
Proof.
  intros H. unfold cget. induction c as [|[k2 v] c IH]; cbn.
  - apply str_eqb_neq in H. now rewrite H.
  - destruct (str_eqb k k2) eqn:E; cbn.
    + apply str_eqb_eq in E. subst k2. apply str_eqb_neq in H. now rewrite H.
    + destruct (str_eqb k' k2); [reflexivity|exact IH].
Qed.

(* ------------------------------------------------------------------------------------------ *)
(* heap facts: which cells' [par] / [kids] each operation writes *)
Lemma par_set_par_if h x v y : par (set_par h x v y) = if Nat.eqb y x then v else par (h y).
Proof. unfold set_par, upd. destruct (Nat.eqb y x); reflexivity. Qed.
Lemma kids_set_kids_if h x v y : kids (set_kids h x v y) = if Nat.eqb y x then v else kids (h y).
Proof. unfold set_kids, upd. destruct (Nat.eqb y x); reflexivity. Qed.
Lemma par_upd_blank h x k t y : par (upd h x (blank k t) y) = if Nat.eqb y x then None else par (h y).
Proof. unfold upd. destruct (Nat.eqb y x); reflexivity. Qed.
Lemma kids_upd_blank h x k t y : kids (upd h x (blank k t) y) = if Nat.eqb y x then [] else kids (h y).
Proof. unfold upd. destruct (Nat.eqb y x); reflexivity. Qed.

Ltac brk := repeat match goal with
  | |- context [match ?e with Some _ => _ | None => _ end] => destruct e
  | |- context [if ?b then _ else _] => destruct b
  end.

Lemma kids_setup h x p q y : kids (setup h x p q y) = kids (h y).
Proof. unfold setup. cbv zeta. brk; autorewrite with heap; reflexivity. Qed.
Lemma par_setup h x p q y : par (setup h x p q y) = if Nat.eqb y x then p else par (h y).
Proof.
  unfold setup. cbv zeta.
  repeat match goal with
  | |- context [match ?e with Some _ => _ | None => _ end] => destruct e
  end; autorewrite with heap; apply par_set_par_if.
Qed.

Lemma kids_fixer_walk fuel : forall h t d c y, kids (fixer_walk fuel h t d c y) = kids (h y).
Proof.
  induction fuel as [|f IH]; intros h t d c y; cbn [fixer_walk]; [reflexivity|].
  destruct t as [t|]; [|reflexivity]. destruct (ns (h t)); [|apply IH].
  now autorewrite with heap.
Qed.
Lemma par_fixer_walk fuel : forall h t d c y, par (fixer_walk fuel h t d c y) = par (h y).
Proof.
  induction fuel as [|f IH]; intros h t d c y; cbn [fixer_walk]; [reflexivity|].
  destruct t as [t|]; [|reflexivity]. destruct (ns (h t)); [|apply IH].
  now autorewrite with heap.
Qed.
Lemma kids_linkage_fixer fuel h el y : kids (linkage_fixer fuel h el y) = kids (h y).
Proof.
  unfold linkage_fixer. destruct (kids (h el)) as [|first ks]; [reflexivity|].
  destruct (last_opt (first :: ks)) as [child|]; [|reflexivity]. cbv zeta.
  rewrite kids_fixer_walk. autorewrite with heap.
  destruct (Nat.eqb child first && _); [|reflexivity].
  autorewrite with heap. brk; autorewrite with heap; reflexivity.
Qed.
Lemma par_linkage_fixer fuel h el y : par (linkage_fixer fuel h el y) = par (h y).
Proof.
  unfold linkage_fixer. destruct (kids (h el)) as [|first ks]; [reflexivity|].
  destruct (last_opt (first :: ks)) as [child|]; [|reflexivity]. cbv zeta.
  rewrite par_fixer_walk. autorewrite with heap.
  destruct (Nat.eqb child first && _); [|reflexivity].
  autorewrite with heap. brk; autorewrite with heap; reflexivity.
Qed.

(* appending a child: the fresh cell n is allocated, set up under [top], and appended to top's contents *)
Lemma grow_heap (h : heap) n k t top mre (hA : heap) :
  (forall y, par (hA y) = par (setup (upd h n (blank k t)) n (Some top) mre y)) ->
  (forall y, kids (hA y) = kids (setup (upd h n (blank k t)) n (Some top) mre y)) ->
  top <> n ->
  let h' := set_kids hA top (kids (hA top) ++ [n]) in
  (forall y, par (h' y) = if Nat.eqb y n then Some top else par (h y)) /\
  (forall y, kids (h' y) = if Nat.eqb y top then kids (h y) ++ [n]
                           else if Nat.eqb y n then [] else kids (h y)).
Proof.
  intros Hp Hk Hne h'. split; intros y; unfold h'.
  - rewrite par_set_kids, Hp, par_setup, par_upd_blank. destruct (Nat.eqb y n); reflexivity.
  - rewrite kids_set_kids_if, !Hk, !kids_setup, !kids_upd_blank.
    destruct (Nat.eqb y top) eqn:E; [|reflexivity].
    apply Nat.eqb_eq in E. subst y. apply Nat.eqb_neq in Hne. now rewrite Hne.
Qed.

(* ------------------------------------------------------------------------------------------ *)
(* the flat tree *)
Notation dnode := (mksn None no_payload).

Lemma filter_nil {X} (f : X -> bool) l : (forall y, In y l -> f y = false) -> filter f l = [].
Proof.
  induction l as [|a l IH]; intros H; [reflexivity|]. cbn. rewrite (H a) by now left.
  apply IH. intros y Hy. apply H. now right.
Qed.

Lemma children_of_snoc nodes p pl x :
  children_of (nodes ++ [mksn (Some p) pl]) x =
  children_of nodes x ++ (if Nat.eqb p x then [length nodes] else []).
Proof.
  unfold children_of. rewrite app_length. cbn [length]. rewrite seq_app, filter_app. f_equal.
  - apply filter_ext_in. intros y Hy. apply in_seq in Hy. rewrite app_nth1 by lia. reflexivity.
  - cbn [seq filter plus]. rewrite app_nth2 by lia. rewrite Nat.sub_diag. cbn [nth sn_parent].
    destruct (Nat.eqb p x); reflexivity.
Qed.

Definition parents_lt (nodes : list snode) : Prop :=
  forall x q, x < length nodes -> sn_parent (nth x nodes dnode) = Some q -> q < length nodes.

Lemma children_of_fresh nodes x : parents_lt nodes -> length nodes <= x -> children_of nodes x = [].
Proof.
  intros H Hx. unfold children_of. apply filter_nil. intros y Hy. apply in_seq in Hy.
  destruct (sn_parent (nth y nodes dnode)) as [q|] eqn:E; [|reflexivity].
  apply H in E; [|lia]. apply Nat.eqb_neq. lia.
Qed.

Lemma parents_lt_snoc nodes p pl : parents_lt nodes -> p < length nodes ->
  parents_lt (nodes ++ [mksn (Some p) pl]).
Proof.
  intros H Hp x q Hx. rewrite app_length in *. cbn [length] in *.
  destruct (Nat.eq_dec x (length nodes)) as [->|Hne].
  - rewrite app_nth2 by lia. rewrite Nat.sub_diag. cbn. intros E. inversion E. lia.
  - rewrite app_nth1 by lia. intros E. apply H in E; lia.
Qed.

Definition nodes_ok (h : heap) (pay : pmap) (nodes : list snode) : Prop :=
  forall x, x < length nodes ->
    par (h x) = sn_parent (nth x nodes dnode) /\
    pay x = sn_pay (nth x nodes dnode) /\
    kids (h x) = children_of nodes x.

Lemma nodes_ok_snoc nodes (h h' : heap) (pay : pmap) p pl :
  nodes_ok h pay nodes -> parents_lt nodes -> p < length nodes ->
  (forall y, par (h' y) = if Nat.eqb y (length nodes) then Some p else par (h y)) ->
  (forall y, kids (h' y) = if Nat.eqb y p then kids (h y) ++ [length nodes]
                           else if Nat.eqb y (length nodes) then [] else kids (h y)) ->
  nodes_ok h' (pupd pay (length nodes) pl) (nodes ++ [mksn (Some p) pl]).
Proof.
  intros Hok Hlt Hp Hpar Hkids x Hx. rewrite app_length in Hx. cbn [length] in Hx.
  rewrite Hpar, Hkids, children_of_snoc. unfold pupd.
  destruct (Nat.eqb x (length nodes)) eqn:E.
  - apply Nat.eqb_eq in E. subst x. rewrite app_nth2 by lia. rewrite Nat.sub_diag. cbn [nth sn_parent sn_pay].
    repeat split. rewrite (Nat.eqb_sym p).
    assert (En : Nat.eqb (length nodes) p = false) by (apply Nat.eqb_neq; lia). rewrite En.
    now rewrite children_of_fresh.
  - apply Nat.eqb_neq in E. rewrite app_nth1 by lia. destruct (Hok x) as (H1 & H2 & H3); [lia|].
    repeat split; try assumption. rewrite (Nat.eqb_sym p), H3.
    destruct (Nat.eqb x p); [reflexivity|]. now rewrite app_nil_r.
Qed.

(* ------------------------------------------------------------------------------------------ *)
(* the optimisation state: counter and auxiliary stacks *)
Definition cnt (pay : pmap) (n : str) (l : list nat) : nat :=
  length (filter (fun x => negb (Nat.eqb x 0) && str_eqb n (p_name (pay x))) l).
Definition is_pw (cfg : bconfig) (pay : pmap) (x : nat) : bool := memS (p_name (pay x)) (c_pw cfg).
Definition is_sc (cfg : bconfig) (pay : pmap) (x : nat) : bool :=
  match assocS (p_name (pay x)) (c_containers cfg) with Some _ => true | None => false end.

(* every open element except the root object (id 0) is counted under its name *)
Definition counter_ok (pay : pmap) (c : list (str * Z)) (stack : list nat) : Prop :=
  forall n,
    match cget n c with
    | Some z => z = Z.of_nat (cnt pay n stack)
    | None => cnt pay n stack = 0
    end.

Lemma cnt_cons pay n x l :
  cnt pay n (x :: l) = (if negb (Nat.eqb x 0) && str_eqb n (p_name (pay x)) then 1 else 0) + cnt pay n l.
Proof. unfold cnt. cbn [filter]. destruct (negb (Nat.eqb x 0) && str_eqb n (p_name (pay x))); reflexivity. Qed.

Lemma cnt_ext pay pay' n l : (forall x, In x l -> pay' x = pay x) -> cnt pay' n l = cnt pay n l.
Proof.
  intros H. unfold cnt. f_equal. apply filter_ext_in. intros x Hx. now rewrite H.
Qed.

Lemma counter_ok_ext pay pay' c l :
  (forall x, In x l -> pay' x = pay x) -> counter_ok pay c l -> counter_ok pay' c l.
Proof.
  intros H H2 n. rewrite (cnt_ext pay pay') by exact H. apply H2.
Qed.

Lemma counter_ok_push pay c stack tag :
  counter_ok pay c stack ->
  counter_ok pay (if Nat.eqb tag 0 then c else cadd (p_name (pay tag)) 1%Z c) (tag :: stack).
Proof.
  intros H n. rewrite cnt_cons. destruct (Nat.eqb tag 0); cbn [negb andb]; [apply H|].
  destruct (str_eqb n (p_name (pay tag))) eqn:En.
  - apply str_eqb_eq in En. subst n. rewrite cget_cadd_same. specialize (H (p_name (pay tag))).
    destruct (cget (p_name (pay tag)) c); lia.
  - apply str_eqb_neq in En. rewrite cget_cadd_other by exact En. apply H.
Qed.

Lemma counter_ok_pop pay c x rest : x <> 0 ->
  counter_ok pay c (x :: rest) ->
  counter_ok pay (match cget (p_name (pay x)) c with
                  | Some _ => cadd (p_name (pay x)) (-1)%Z c
                  | None => c
                  end) rest.
Proof.
  intros Hx H. apply Nat.eqb_neq in Hx. pose proof (H (p_name (pay x))) as Hn.
  rewrite cnt_cons, Hx, str_eqb_refl in Hn. cbn [negb andb] in Hn.
  destruct (cget (p_name (pay x)) c) as [z|] eqn:Ez; [|lia].
  intros n. specialize (H n). rewrite cnt_cons, Hx in H. cbn [negb andb] in H.
  destruct (str_eqb n (p_name (pay x))) eqn:En.
  - apply str_eqb_eq in En. subst n. rewrite cget_cadd_same, Ez. rewrite Ez in H. lia.
  - apply str_eqb_neq in En. rewrite cget_cadd_other by exact En. exact H.
Qed.

(* popTag's identity test against the top of an auxiliary stack *)
Lemma aux_pop (f : nat -> bool) x rest : ~ In x rest ->
  match filter f (x :: rest) with
  | t :: r => if Nat.eqb x t then r else filter f (x :: rest)
  | [] => []
  end = filter f rest.
Proof.
  intros Hni. cbn [filter]. destruct (f x).
  - now rewrite Nat.eqb_refl.
  - destruct (filter f rest) as [|t r] eqn:E; [reflexivity|].
    assert (Ht : In t rest). { assert (In t (filter f rest)) by (rewrite E; now left). apply filter_In in H. tauto. }
    assert (Hne : Nat.eqb x t = false) by (apply Nat.eqb_neq; intros ->; contradiction).
    now rewrite Hne.
Qed.

Lemma pupd_other (pay : pmap) n pl x : x <> n -> pupd pay n pl x = pay x.
Proof. intros H. unfold pupd. apply Nat.eqb_neq in H. now rewrite H. Qed.
Lemma pupd_same (pay : pmap) n pl : pupd pay n pl n = pl.
Proof. unfold pupd. now rewrite Nat.eqb_refl. Qed.

(* ------------------------------------------------------------------------------------------ *)
(* the simulation invariant *)
Record sim (cfg : bconfig) (b : bstate) (s : sstate) : Prop := mksim {
  sim_nxt : nxt (b_st b) = length (s_nodes s);
  sim_nodes : nodes_ok (hp (b_st b)) (b_pay b) (s_nodes s);
  sim_plt : parents_lt (s_nodes s);
  sim_stack : b_stack b = s_open s;
  sim_shape : exists pre, b_stack b = pre ++ [0];
  sim_nodup : NoDup (b_stack b);
  sim_lt : forall x, In x (b_stack b) -> x < nxt (b_st b);
  sim_cur : b_cur b = hd_error (b_stack b);
  sim_data : b_data b = s_pending s;
  sim_counter : counter_ok (b_pay b) (b_counter b) (b_stack b);
  sim_pws : b_pws b = filter (is_pw cfg (b_pay b)) (b_stack b);
  sim_scs : b_scs b = filter (is_sc cfg (b_pay b)) (b_stack b)
}.

Lemma sim_pay cfg b s x : sim cfg b s -> In x (b_stack b) ->
  b_pay b x = sn_pay (nth x (s_nodes s) dnode).
Proof.
  intros H Hx. apply (sim_lt _ _ _ H) in Hx. rewrite (sim_nxt _ _ _ H) in Hx.
  now destruct (sim_nodes _ _ _ H x Hx) as (_ & H2 & _).
Qed.

Lemma sim_pre_nz cfg b s pre z : sim cfg b s -> b_stack b = pre ++ [0] -> In z pre -> z <> 0.
Proof.
  intros H Hst Hz ->. pose proof (sim_nodup _ _ _ H) as Hnd. rewrite Hst in Hnd.
  apply NoDup_remove_2 in Hnd. rewrite app_nil_r in Hnd. contradiction.
Qed.

(* popTag, when something other than the root is on top *)
Lemma sim_pop cfg b s x y rest : sim cfg b s -> b_stack b = x :: y :: rest ->
  sim cfg (pop_tag b) (mkss (s_nodes s) (y :: rest) (s_pending s)).
Proof.
  intros H E. pose proof (sim_nodup _ _ _ H) as Hnd. rewrite E in Hnd. inversion Hnd as [|? ? Hni Hnd']; subst.
  assert (Hx0 : x <> 0).
  { destruct (sim_shape _ _ _ H) as [pre Hpre]. apply (sim_pre_nz _ _ _ pre x H Hpre).
    rewrite E in Hpre. destruct pre as [|a pre]; [discriminate|]. cbn [app] in Hpre.
    injection Hpre as Ea Eb. subst a. now left. }
  unfold pop_tag. rewrite E. cbv zeta. unfold name_of.
  constructor; cbn [b_st b_pay b_stack b_counter b_pws b_scs b_data b_mre b_cur s_nodes s_open s_pending].
  - apply H.
  - apply H.
  - apply H.
  - reflexivity.
  - destruct (sim_shape _ _ _ H) as [pre Hpre]. rewrite E in Hpre.
    destruct pre as [|a pre]; [discriminate|]. cbn in Hpre. inversion Hpre. now exists pre.
  - exact Hnd'.
  - intros z Hz. apply (sim_lt _ _ _ H). rewrite E. now right.
  - reflexivity.
  - apply H.
  - pose proof (sim_counter _ _ _ H) as Hc. rewrite E in Hc. now apply counter_ok_pop in Hc.
  - rewrite (sim_pws _ _ _ H), E. now apply aux_pop.
  - rewrite (sim_scs _ _ _ H), E. now apply aux_pop.
Qed.

(* ------------------------------------------------------------------------------------------ *)
(* _popToTag against close_through *)
Definition smatch (s : sstate) (name : str) (prefix : option str) (x : nat) : bool :=
  str_eqb name (s_name s x) && opt_str_eqb prefix (s_prefix s x).
Definition bmatch (b : bstate) (name : str) (prefix : option str) (t : nat) : bool :=
  str_eqb name (name_of b t) && opt_str_eqb prefix (p_prefix (b_pay b t)).

Lemma sim_match cfg b s name prefix x : sim cfg b s -> In x (b_stack b) ->
  bmatch b name prefix x = smatch s name prefix x.
Proof.
  intros H Hx. unfold bmatch, smatch, name_of, s_name, s_prefix. now rewrite (sim_pay _ _ _ _ H Hx).
Qed.

Lemma close_through_cons s name prefix x y l :
  close_through s name prefix (x :: y :: l) =
  if smatch s name prefix x then Some (y :: l) else close_through s name prefix (y :: l).
Proof. reflexivity. Qed.

Lemma close_through_ext s s' name prefix l : s_nodes s = s_nodes s' ->
  close_through s name prefix l = close_through s' name prefix l.
Proof.
  intros E. induction l as [|x l IH]; [reflexivity|]. destruct l as [|y l]; [reflexivity|].
  rewrite !close_through_cons, IH. unfold smatch, s_name, s_prefix. now rewrite E.
Qed.

Lemma close_some s name prefix r rest : forall pre,
  close_through s name prefix (pre ++ [r]) = Some rest ->
  exists x, In x pre /\ smatch s name prefix x = true.
Proof.
  induction pre as [|x pre IH]; intros H; [discriminate|].
  cbn [app] in H. destruct (pre ++ [r]) as [|y l] eqn:E; [destruct pre; discriminate|].
  rewrite close_through_cons in H. destruct (smatch s name prefix x) eqn:Em.
  - exists x. split; [now left|exact Em].
  - destruct (IH H) as (z & Hz & Hm). exists z. split; [now right|exact Hm].
Qed.

Lemma close_none s name prefix r : forall pre,
  close_through s name prefix (pre ++ [r]) = None ->
  forall x, In x pre -> smatch s name prefix x = false.
Proof.
  induction pre as [|x pre IH]; intros H z Hz; [contradiction|].
  cbn [app] in H. destruct (pre ++ [r]) as [|y l] eqn:E; [destruct pre; discriminate|].
  rewrite close_through_cons in H. destruct (smatch s name prefix x) eqn:Em; [discriminate|].
  destruct Hz as [<-|Hz]; [exact Em|]. now apply IH.
Qed.

Lemma cnt_pos pay n l x : In x l -> x <> 0 -> str_eqb n (p_name (pay x)) = true -> 1 <= cnt pay n l.
Proof.
  intros Hx Hx0 Hm. induction l as [|a l IH]; [contradiction|]. rewrite cnt_cons.
  destruct Hx as [->|Hx].
  - apply Nat.eqb_neq in Hx0. rewrite Hx0, Hm. cbn [negb andb]. lia.
  - apply IH in Hx. lia.
Qed.

Lemma b_stack_pop b x rest : b_stack b = x :: rest -> b_stack (pop_tag b) = rest.
Proof. intros E. unfold pop_tag. rewrite E. reflexivity. Qed.

Lemma pop_loop_sim cfg name prefix :
  forall pre b s n rest, sim cfg b s -> b_stack b = pre ++ [0] -> length pre <= n ->
  close_through s name prefix (pre ++ [0]) = Some rest ->
  sim cfg (pop_loop n b name prefix) (mkss (s_nodes s) rest (s_pending s)).
Proof.
  induction pre as [|x pre IH]; intros b s n rest H Hst Hn Hcl; [discriminate|].
  destruct n as [|n]; [cbn in Hn; lia|]. cbn [pop_loop].
  (* the counter is positive *)
  destruct (close_some s name prefix 0 rest (x :: pre) Hcl) as (z & Hz & Hm).
  assert (Hzs : In z (b_stack b)) by (rewrite Hst; apply in_or_app; now left).
  rewrite <- (sim_match _ _ _ _ _ _ H Hzs) in Hm. unfold bmatch in Hm. apply andb_prop in Hm as [Hm _].
  pose proof (cnt_pos _ _ _ _ Hzs (sim_pre_nz _ _ _ _ _ H Hst Hz) Hm) as Hpos.
  pose proof (sim_counter _ _ _ H name) as Hc.
  destruct (cget name (b_counter b)) as [c|]; [|unfold name_of in *; lia].
  assert (Ec : Z.eqb c 0 = false) by (apply Z.eqb_neq; unfold name_of in *; lia). rewrite Ec.
  rewrite Hst. cbn [app]. cbn [app] in Hst, Hcl.
  destruct (pre ++ [0]) as [|y l] eqn:E; [destruct pre; discriminate|].
  rewrite close_through_cons in Hcl.
  assert (Hxs : In x (b_stack b)) by (rewrite Hst; now left).
  fold (bmatch b name prefix x). rewrite (sim_match _ _ _ _ _ _ H Hxs).
  destruct (smatch s name prefix x).
  - inversion Hcl; subst rest. now apply (sim_pop _ _ _ _ _ _ H Hst).
  - apply (IH (pop_tag b) (mkss (s_nodes s) (y :: l) (s_pending s)) n rest).
    + now apply (sim_pop _ _ _ _ _ _ H Hst).
    + now apply (b_stack_pop _ _ _ Hst).
    + cbn in Hn. lia.
    + rewrite <- Hcl. now apply close_through_ext.
Qed.

Lemma sim_pop_to_tag cfg b s name prefix : sim cfg b s ->
  sim cfg (pop_to_tag cfg b name prefix)
      (match close_through s name prefix (s_open s) with
       | Some rest => mkss (s_nodes s) rest (s_pending s)
       | None => s
       end).
Proof.
  intros H. unfold pop_to_tag.
  destruct (sim_shape _ _ _ H) as [pre Hpre]. rewrite <- (sim_stack _ _ _ H), Hpre.
  assert (Hin : forall z, In z pre -> In z (b_stack b)) by (intros z Hz; rewrite Hpre; apply in_or_app; now left).
  assert (Eis : is_open b name prefix = existsb (bmatch b name prefix) pre).
  { unfold is_open. now rewrite Hpre, removelast_last. }
  destruct (close_through s name prefix (pre ++ [0])) as [rest|] eqn:Ecl.
  - assert (Eo : is_open b name prefix = true).
    { destruct (close_some s name prefix 0 rest pre Ecl) as (z & Hz & Hm). rewrite Eis. apply existsb_exists.
      exists z. split; [exact Hz|]. now rewrite (sim_match _ _ _ _ _ _ H (Hin _ Hz)). }
    rewrite Eo. cbn [negb]. rewrite andb_false_r. rewrite app_length. cbn [length].
    rewrite Nat.add_1_r. cbn [pred].
    apply (pop_loop_sim cfg name prefix pre); [exact H|exact Hpre|lia|exact Ecl].
  - destruct (counter_positive b name) eqn:Ecp.
    + assert (Eo : is_open b name prefix = false).
      { rewrite Eis. apply not_true_iff_false. intros Hex. apply existsb_exists in Hex as (z & Hz & Hm).
        rewrite (sim_match _ _ _ _ _ _ H (Hin _ Hz)) in Hm.
        rewrite (close_none s name prefix 0 pre Ecl _ Hz) in Hm. discriminate. }
      rewrite Eo. exact H.
    + cbn [andb]. unfold counter_positive in Ecp.
      destruct (pred (length (pre ++ [0]))) as [|n]; cbn [pop_loop]; [exact H|].
      destruct (cget name (b_counter b)) as [z|]; [|exact H].
      destruct (Z.eqb z 0); [exact H|discriminate].
Qed.

(* ------------------------------------------------------------------------------------------ *)
(* endData against s_flush *)
Lemma filter_existsb {X Y} (f : X -> bool) (l : list X) (a b : Y) :
  match filter f l with [] => a | _ :: _ => b end = if existsb f l then b else a.
Proof.
  induction l as [|x l IH]; [reflexivity|]. cbn. destruct (f x); [reflexivity|exact IH].
Qed.

Lemma sim_pws_s cfg b s : sim cfg b s ->
  b_pws b = filter (fun x => memS (s_name s x) (c_pw cfg)) (s_open s).
Proof.
  intros H. rewrite (sim_pws _ _ _ H), <- (sim_stack _ _ _ H). apply filter_ext_in. intros x Hx.
  unfold is_pw, s_name. now rewrite (sim_pay _ _ _ _ H Hx).
Qed.
Lemma sim_scs_s cfg b s : sim cfg b s ->
  b_scs b = filter (fun x => match assocS (s_name s x) (c_containers cfg) with Some _ => true | None => false end)
                   (s_open s).
Proof.
  intros H. rewrite (sim_scs _ _ _ H), <- (sim_stack _ _ _ H). apply filter_ext_in. intros x Hx.
  unfold is_sc, s_name. now rewrite (sim_pay _ _ _ _ H Hx).
Qed.

Lemma nearest_filter cfg s l :
  nearest_container cfg s l =
  match filter (fun x => match assocS (s_name s x) (c_containers cfg) with Some _ => true | None => false end) l with
  | [] => 0%N
  | t :: _ => match assocS (s_name s t) (c_containers cfg) with Some c => c | None => 0%N end
  end.
Proof.
  induction l as [|x l IH]; [reflexivity|]. cbn [nearest_container filter].
  destruct (assocS (s_name s x) (c_containers cfg)) eqn:E; [now rewrite E|exact IH].
Qed.

Lemma sim_cls cfg b s cls : sim cfg b s ->
  string_container cfg b cls =
  match cls with
  | Some c => if N.eqb c 0 then nearest_container cfg s (s_open s) else c
  | None => nearest_container cfg s (s_open s)
  end.
Proof.
  intros H. unfold string_container. rewrite nearest_filter, (sim_scs_s _ _ _ H).
  destruct (filter _ (s_open s)) as [|t r] eqn:E.
  - destruct cls as [c|]; [|reflexivity]. destruct (N.eqb c 0) eqn:Ec; [|reflexivity].
    now apply N.eqb_eq in Ec.
  - assert (Ht : In t (b_stack b)).
    { rewrite (sim_stack _ _ _ H). assert (Hin : In t (t :: r)) by now left. rewrite <- E in Hin.
      apply filter_In in Hin. tauto. }
    unfold name_of. rewrite (sim_pay _ _ _ _ H Ht). fold (s_name s t).
    destruct cls as [c|]; [|reflexivity]. destruct (N.eqb c 0) eqn:Ec; [|reflexivity].
    apply N.eqb_eq in Ec. subst c. reflexivity.
Qed.

Lemma sim_text cfg b s (special : bool) (cur alt : str) : sim cfg b s ->
  (if special then cur else
   match b_pws b with
   | [] => if all_in (c_spaces cfg) cur then alt else cur
   | _ :: _ => cur
   end) =
  if negb special && negb (existsb (fun x => memS (s_name s x) (c_pw cfg)) (s_open s)) && all_in (c_spaces cfg) cur
  then alt else cur.
Proof.
  intros H. destruct special; [reflexivity|]. cbn [negb andb].
  rewrite (sim_pws_s _ _ _ H), filter_existsb.
  destruct (existsb _ (s_open s)); reflexivity.
Qed.

Lemma sim_top cfg b s : sim cfg b s -> exists top rest, b_stack b = top :: rest /\ b_cur b = Some top.
Proof.
  intros H. destruct (sim_shape _ _ _ H) as [pre Hpre]. rewrite (sim_cur _ _ _ H), Hpre.
  destruct pre as [|x pre]; cbn; eauto.
Qed.

Lemma sim_pupd cfg b s pl x : sim cfg b s -> In x (b_stack b) ->
  pupd (b_pay b) (nxt (b_st b)) pl x = b_pay b x.
Proof. intros H Hx. apply pupd_other. apply (sim_lt _ _ _ H) in Hx. lia. Qed.

(* everything in the invariant that depends on the new node only *)
Lemma sim_grow cfg b s top rest (h' : heap) pl : sim cfg b s -> b_stack b = top :: rest ->
  (forall y, par (h' y) = if Nat.eqb y (nxt (b_st b)) then Some top else par (hp (b_st b) y)) ->
  (forall y, kids (h' y) = if Nat.eqb y top then kids (hp (b_st b) y) ++ [nxt (b_st b)]
                           else if Nat.eqb y (nxt (b_st b)) then [] else kids (hp (b_st b) y)) ->
  let pay' := pupd (b_pay b) (nxt (b_st b)) pl in
  let nodes' := s_nodes s ++ [mksn (hd_error (s_open s)) pl] in
  S (nxt (b_st b)) = length nodes' /\ nodes_ok h' pay' nodes' /\ parents_lt nodes' /\
  counter_ok pay' (b_counter b) (b_stack b) /\
  filter (is_pw cfg pay') (b_stack b) = filter (is_pw cfg (b_pay b)) (b_stack b) /\
  filter (is_sc cfg pay') (b_stack b) = filter (is_sc cfg (b_pay b)) (b_stack b).
Proof.
  intros H Est Hpar Hkids pay' nodes'. unfold nodes'.
  assert (Ehd : hd_error (s_open s) = Some top) by (now rewrite <- (sim_stack _ _ _ H), Est).
  rewrite Ehd.
  assert (Htop : top < length (s_nodes s)).
  { rewrite <- (sim_nxt _ _ _ H). apply (sim_lt _ _ _ H). rewrite Est. now left. }
  assert (Hext : forall x, In x (b_stack b) -> pay' x = b_pay b x) by (intros x Hx; now apply (sim_pupd cfg b s)).
  pose proof (sim_nxt _ _ _ H) as Hn. split; [|split; [|split; [|split; [|split]]]].
  - rewrite app_length. cbn [length]. lia.
  - unfold pay'. rewrite Hn in *.
    apply (nodes_ok_snoc _ (hp (b_st b))); try assumption; apply H.
  - apply parents_lt_snoc; [apply H|exact Htop].
  - apply (counter_ok_ext (b_pay b)); [exact Hext|apply H].
  - apply filter_ext_in. intros x Hx. unfold is_pw. now rewrite Hext.
  - apply filter_ext_in. intros x Hx. unfold is_sc. now rewrite Hext.
Qed.

Lemma sim_end_data cfg b s cls : sim cfg b s -> sim cfg (end_data cfg b cls) (s_flush cfg s cls).
Proof.
  intros H. unfold end_data, s_flush. rewrite <- (sim_data _ _ _ H).
  destruct (b_data b) as [|c cs] eqn:Ed; [exact H|].
  destruct (sim_top _ _ _ H) as (top & rest & Est & Ecur).
  cbv zeta. rewrite (sim_text _ _ _ _ _ _ H), (sim_cls _ _ _ _ H).
  set (text := if _ && _ then _ else _). set (cl := match cls with Some _ => _ | None => _ end).
  unfold alloc, object_was_parsed. cbn [b_cur b_st b_mre b_pay b_stack b_counter b_pws b_scs b_data].
  rewrite Ecur. cbn [hp]. unfold with_heap. cbn [nxt].
  set (pl := mkpl text None [] cl false).
  set (k := KStr (preformatted_cls cl)).
  set (hA := setup (upd (hp (b_st b)) (nxt (b_st b)) (blank k text)) (nxt (b_st b)) (Some top) (b_mre b)).
  set (h2 := set_kids hA top (kids (hA top) ++ [nxt (b_st b)])).
  set (h3 := if match ne _ with Some _ => true | None => false end then _ else h2).
  assert (Htop : top <> nxt (b_st b)).
  { assert (top < nxt (b_st b)); [|lia]. apply (sim_lt _ _ _ H). rewrite Est. now left. }
  destruct (grow_heap (hp (b_st b)) (nxt (b_st b)) k text top (b_mre b) hA
              (fun y => eq_refl) (fun y => eq_refl) Htop) as [Hp2 Hk2].
  fold h2 in Hp2, Hk2.
  assert (Hp3 : forall y, par (h3 y) = par (h2 y))
    by (intros y; unfold h3; destruct (match ne _ with Some _ => true | None => false end);
        [apply par_linkage_fixer|reflexivity]).
  assert (Hk3 : forall y, kids (h3 y) = kids (h2 y))
    by (intros y; unfold h3; destruct (match ne _ with Some _ => true | None => false end);
        [apply kids_linkage_fixer|reflexivity]).
  destruct (sim_grow cfg b s top rest h3 pl H Est) as (G1 & G2 & G3 & G5 & G6 & G7).
  { intros y. now rewrite Hp3, Hp2. }
  { intros y. now rewrite Hk3, Hk2. }
  constructor; cbn [b_st b_pay b_stack b_counter b_pws b_scs b_data b_mre b_cur s_nodes s_open s_pending hp nxt].
  - exact G1.
  - exact G2.
  - exact G3.
  - apply H.
  - apply H.
  - apply H.
  - intros x Hx. apply (sim_lt _ _ _ H) in Hx. lia.
  - now rewrite Est.
  - reflexivity.
  - exact G5.
  - rewrite G6. apply H.
  - rewrite G7. apply H.
Qed.

Lemma end_data_data cfg b cls : b_data (end_data cfg b cls) = [].
Proof.
  unfold end_data. destruct (b_data b) eqn:E; [exact E|].
  unfold alloc, object_was_parsed. cbn [b_cur]. destruct (b_cur b); reflexivity.
Qed.

(* ------------------------------------------------------------------------------------------ *)
(* handle_starttag *)
Lemma sim_start cfg b s name prefix attrs : sim cfg b s -> b_data b = [] ->
  sim cfg
    (let '(st', tag) := alloc (b_st b) KTag name in
     let pay := pupd (b_pay b) tag (mkpl name prefix attrs 0%N (can_be_empty cfg name)) in
     let h := setup (hp st') tag (b_cur b) (b_mre b) in
     let h := match b_mre b with Some q => set_ne h q (Some tag) | None => h end in
     push_tag cfg (mkb (with_heap st' h) pay (b_stack b) (b_counter b) (b_pws b) (b_scs b) (b_data b)
                       (Some tag) (b_cur b)) tag)
    (mkss (s_nodes s ++ [mksn (hd_error (s_open s)) (mkpl name prefix attrs 0%N (can_be_empty cfg name))])
          (length (s_nodes s) :: s_open s) []).
Proof.
  intros H Ed. destruct (sim_top _ _ _ H) as (top & rest & Est & Ecur).
  unfold alloc, push_tag, name_of, with_heap.
  cbn [b_cur b_st b_mre b_pay b_stack b_counter b_pws b_scs b_data hp nxt].
  rewrite Ecur, Ed.
  set (pl := mkpl name prefix attrs 0%N (can_be_empty cfg name)).
  set (n := nxt (b_st b)).
  set (hA := match b_mre b with Some q => set_ne _ q (Some n) | None => _ end).
  set (h2 := set_kids hA top (kids (hA top) ++ [n])).
  assert (Htop : top <> n).
  { assert (top < n); [|lia]. apply (sim_lt _ _ _ H). rewrite Est. now left. }
  destruct (grow_heap (hp (b_st b)) n KTag name top (b_mre b) hA) as [Hp2 Hk2].
  { intros y. unfold hA. destruct (b_mre b); autorewrite with heap; reflexivity. }
  { intros y. unfold hA. destruct (b_mre b); autorewrite with heap; reflexivity. }
  { exact Htop. }
  fold h2 in Hp2, Hk2.
  destruct (sim_grow cfg b s top rest h2 pl H Est Hp2 Hk2) as (G1 & G2 & G3 & G5 & G6 & G7).
  fold n in G1, G2, G5, G6, G7.
  assert (Hni : ~ In n (b_stack b)).
  { intros Hin. apply (sim_lt _ _ _ H) in Hin. unfold n in Hin. lia. }
  constructor; cbn [b_st b_pay b_stack b_counter b_pws b_scs b_data b_mre b_cur s_nodes s_open s_pending hp nxt].
  - exact G1.
  - exact G2.
  - exact G3.
  - unfold n. now rewrite (sim_nxt _ _ _ H), (sim_stack _ _ _ H).
  - destruct (sim_shape _ _ _ H) as [pre Hpre]. exists (n :: pre). now rewrite Hpre.
  - constructor; [exact Hni|apply H].
  - intros x [<-|Hx]; [lia|]. apply (sim_lt _ _ _ H) in Hx. fold n in Hx. lia.
  - reflexivity.
  - reflexivity.
  - now apply counter_ok_push.
  - cbn [filter]. rewrite G6, <- (sim_pws _ _ _ H). unfold is_pw. reflexivity.
  - cbn [filter]. rewrite G7, <- (sim_scs _ _ _ H). unfold is_sc.
    destruct (assocS _ (c_containers cfg)); reflexivity.
Qed.

Lemma sim_starttag cfg b s name prefix attrs : sim cfg b s ->
  sim cfg (handle_starttag cfg b name prefix attrs) (s_step cfg s (EStart name prefix attrs)).
Proof.
  intros H. unfold handle_starttag. cbn [s_step]. cbv zeta.
  apply sim_start; [now apply sim_end_data|apply end_data_data].
Qed.

Lemma sim_step cfg b s e : sim cfg b s -> sim cfg (step_event cfg b e) (s_step cfg s e).
Proof.
  intros H. destruct e as [name prefix attrs|name prefix|t|c]; cbn [step_event].
  - now apply sim_starttag.
  - unfold handle_endtag. cbn [s_step]. cbv zeta. apply sim_pop_to_tag. now apply sim_end_data.
  - unfold handle_data. cbn [s_step]. destruct H.
    constructor; cbn [b_st b_pay b_stack b_counter b_pws b_scs b_data b_mre b_cur s_nodes s_open s_pending];
      try assumption. now f_equal.
  - cbn [s_step]. now apply sim_end_data.
Qed.

(* ------------------------------------------------------------------------------------------ *)
(* reset and the event loop *)
Lemma sim_reset cfg : sim cfg (reset cfg) (s_start cfg).
Proof.
  unfold reset, s_start, alloc, push_tag, name_of, with_heap.
  cbn [b_cur b_st b_mre b_pay b_stack b_counter b_pws b_scs b_data hp nxt].
  rewrite pupd_same. cbn [p_name Nat.eqb].
  constructor; cbn [b_st b_pay b_stack b_counter b_pws b_scs b_data b_mre b_cur s_nodes s_open s_pending hp nxt length].
  - reflexivity.
  - intros x Hx. cbn [length] in Hx. assert (x = 0) by lia. subst x.
    rewrite upd_same, pupd_same. cbn. auto.
  - intros x q Hx. cbn [length] in Hx. assert (x = 0) by lia. subst x. cbn. discriminate.
  - reflexivity.
  - now exists [].
  - constructor; [intros []|constructor].
  - intros x [<-|[]]. lia.
  - reflexivity.
  - reflexivity.
  - intros n. reflexivity.
  - cbn [filter]. unfold is_pw. rewrite pupd_same. reflexivity.
  - cbn [filter]. unfold is_sc. rewrite pupd_same. cbn [p_name].
    destruct (assocS (c_root cfg) (c_containers cfg)); reflexivity.
Qed.

Lemma sim_fold cfg evs : forall b s, sim cfg b s ->
  sim cfg (fold_left (step_event cfg) evs b) (fold_left (s_step cfg) evs s).
Proof.
  induction evs as [|e evs IH]; intros b s H; [exact H|]. cbn [fold_left]. apply IH. now apply sim_step.
Qed.

(* ------------------------------------------------------------------------------------------ *)
(* end of input: pop everything down to the root object *)
Lemma pop_tag_st b : b_st (pop_tag b) = b_st b /\ b_pay (pop_tag b) = b_pay b.
Proof. unfold pop_tag. destruct (b_stack b); split; reflexivity. Qed.

Lemma pop_all_st cfg n : forall b, b_st (pop_all n cfg b) = b_st b /\ b_pay (pop_all n cfg b) = b_pay b.
Proof.
  induction n as [|n IH]; intros b; cbn [pop_all]; [split; reflexivity|].
  destruct (b_cur b) as [c|]; [|split; reflexivity].
  destruct (Nat.eqb c 0); [split; reflexivity|].
  destruct (IH (pop_tag b)) as [E1 E2]. destruct (pop_tag_st b) as [E3 E4]. split; congruence.
Qed.

Lemma pop_all_root cfg : forall pre b s n, sim cfg b s -> b_stack b = pre ++ [0] -> length pre <= n ->
  b_stack (pop_all n cfg b) = [0] /\ b_cur (pop_all n cfg b) = Some 0.
Proof.
  induction pre as [|x pre IH]; intros b s n H Hst Hn.
  - assert (Ec : b_cur b = Some 0) by (now rewrite (sim_cur _ _ _ H), Hst).
    destruct n as [|n]; cbn [pop_all]; [now split|]. rewrite Ec. cbn [Nat.eqb]. now split.
  - destruct n as [|n]; [cbn in Hn; lia|]. cbn [pop_all].
    assert (Ec : b_cur b = Some x) by (now rewrite (sim_cur _ _ _ H), Hst).
    rewrite Ec. assert (Ex : Nat.eqb x 0 = false).
    { apply Nat.eqb_neq. apply (sim_pre_nz _ _ _ _ x H Hst). now left. }
    rewrite Ex. cbn [app] in Hst. destruct (pre ++ [0]) as [|y l] eqn:E; [destruct pre; discriminate|].
    apply (IH (pop_tag b) (mkss (s_nodes s) (y :: l) (s_pending s)) n).
    + now apply (sim_pop _ _ _ _ _ _ H Hst).
    + now apply (b_stack_pop _ _ _ Hst).
    + cbn in Hn. lia.
Qed.

(* ------------------------------------------------------------------------------------------ *)
(* the theorems *)
Lemma feed_sim cfg evs :
  let s := s_flush cfg (fold_left (s_step cfg) evs (s_start cfg)) None in
  exists b1, sim cfg b1 s /\ feed cfg evs = pop_all (length (b_stack b1)) cfg b1.
Proof.
  intros s. exists (end_data cfg (fold_left (step_event cfg) evs (reset cfg)) None). split; [|reflexivity].
  apply sim_end_data, sim_fold, sim_reset.
Qed.

(* the tree part holds for every configuration and every event sequence *)
Theorem build_refines_tree : forall cfg evs,
  let b := feed cfg evs in
  let nodes := spec_run cfg evs in
  nxt (b_st b) = length nodes /\
  (forall x, x < length nodes ->
     par (hp (b_st b) x) = sn_parent (nth x nodes (mksn None no_payload)) /\
     b_pay b x = sn_pay (nth x nodes (mksn None no_payload)) /\
     kids (hp (b_st b) x) = children_of nodes x).
Proof.
  intros cfg evs b nodes. destruct (feed_sim cfg evs) as (b1 & H & E). unfold b, nodes, spec_run.
  rewrite E. destruct (pop_all_st cfg (length (b_stack b1)) b1) as [-> ->]. split.
  - apply H.
  - apply H.
Qed.

(* MAIN THEOREM: for every configuration and every event sequence, the model builds exactly the tree of the
   documented rules: same number of nodes, same parent and payload for each, each child list = the nodes naming
   that parent in creation order, and nothing but the root is left open. *)
Theorem build_refines : forall cfg evs,
  let b := feed cfg evs in
  let nodes := spec_run cfg evs in
  nxt (b_st b) = length nodes /\
  (forall x, x < length nodes ->
     par (hp (b_st b) x) = sn_parent (nth x nodes (mksn None no_payload)) /\
     b_pay b x = sn_pay (nth x nodes (mksn None no_payload)) /\
     kids (hp (b_st b) x) = children_of nodes x) /\
  b_stack b = [0] /\ b_cur b = Some 0.
Proof.
  intros cfg evs b nodes. destruct (build_refines_tree cfg evs) as [T1 T2]. fold b nodes in T1, T2.
  split; [exact T1|]. split; [exact T2|]. unfold b.
  destruct (feed_sim cfg evs) as (b1 & H & E). rewrite E.
  destruct (sim_shape _ _ _ H) as [pre Hpre].
  apply (pop_all_root cfg pre b1 _ _ H Hpre). rewrite Hpre, app_length. cbn. lia.
Qed.

(* An element that carries the root's own name is closed at end of input like any other (before the fix of
   popTag / _popToTag / _feed, which compared names instead of identities, it was left open). *)
Example root_named_element_closed :
  let cfg := mkcfg None [] [] [] [91%N] in
  let b := feed cfg [EStart [91%N] None []] in
  b_stack b = [0] /\ b_cur b = Some 0 /\ kids (hp (b_st b) 0) = [1].
Proof. vm_compute. repeat split; reflexivity. Qed.

(* ------------------------------------------------------------------------------------------ *)
(* the documented rules, in the property's own words *)

(* an end tag for which no element of that name and prefix is open changes nothing but flushes pending text *)
Lemma unknown_end_ignored : forall cfg s name prefix,
  close_through (s_flush cfg s None) name prefix (s_open (s_flush cfg s None)) = None ->
  s_step cfg s (EEnd name prefix) = s_flush cfg s None.
Proof.
  intros cfg s name prefix H. cbn [s_step]. cbv zeta. now rewrite H.
Qed.

(* whitespace-only text outside whitespace-preserving elements collapses to one newline or one space *)
Lemma ws_collapse : forall cfg s cls chunks,
  s_pending s = chunks -> chunks <> [] ->
  (match cls with Some c => preformatted_cls c | None => false end) = false ->
  existsb (fun x => memS (s_name s x) (c_pw cfg)) (s_open s) = false ->
  all_in (c_spaces cfg) (concat (rev chunks)) = true ->
  exists c, s_nodes (s_flush cfg s cls) = s_nodes s ++
     [mksn (hd_error (s_open s)) (mkpl (if memN 10%N (concat (rev chunks)) then [10%N] else [32%N]) None [] c false)].
Proof.
  intros cfg s cls chunks Hp Hne Hsp Hex Hall. unfold s_flush. rewrite Hp.
  destruct chunks as [|c cs]; [contradiction|]. cbv zeta. rewrite Hsp, Hex, Hall. cbn [negb andb s_nodes].
  eexists. reflexivity.
Qed.

(* the content of a special string (comment, CDATA, doctype, declaration, processing instruction) is exactly
   the data the builder sent *)
Lemma special_string_kept : forall cfg s c chunks,
  s_pending s = chunks -> chunks <> [] -> preformatted_cls c = true ->
  exists k, s_nodes (s_flush cfg s (Some c)) = s_nodes s ++
     [mksn (hd_error (s_open s)) (mkpl (concat (rev chunks)) None [] k false)].
Proof.
  intros cfg s c chunks Hp Hne Hsp. unfold s_flush. rewrite Hp.
  destruct chunks as [|ch cs]; [contradiction|]. cbv zeta. rewrite Hsp. cbn [negb andb s_nodes].
  eexists. reflexivity.
Qed.

Print Assumptions build_refines_tree.
Print Assumptions unknown_end_ignored.
Print Assumptions ws_collapse.
Print Assumptions special_string_kept.
Print Assumptions build_refines.
