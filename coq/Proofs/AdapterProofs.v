(* C04 — proofs about the adapter (Model/Adapter.v) against the document specification
   (Spec/DocSpec.v) and the documented construction rules (Spec/BuildSpec.v). *)
From Coq Require Import List NArith ZArith Bool Arith Lia.
From BS Require Import Base.Sexp Base.Types Base.Reader Gen.Tables Gen.Entities Gen.Stdlib Gen.T_C04
                       Model.Attrs Model.Heap Model.Edit Model.Build Model.Adapter
                       Spec.BuildSpec Spec.DocSpec.
Import ListNotations.
Open Scope nat_scope.

(* ---- induction over documents ---- *)
Definition is_leaf (d : dnode) : Prop := match d with DElem _ _ _ _ => False | _ => True end.
Section DInd.
  Variable P : dnode -> Prop.
  Hypothesis Hleaf : forall d, is_leaf d -> P d.
  Hypothesis Helem : forall n a p kids, Forall P kids -> P (DElem n a p kids).
  Fixpoint dnode_ind' (d : dnode) : P d :=
    match d as d0 return P d0 with
    | DElem n a p kids =>
        Helem n a p kids
          ((fix go (l : list dnode) : Forall P l :=
              match l with
              | [] => Forall_nil P
              | k :: l' => Forall_cons k (dnode_ind' k) (go l')
              end) kids)
    | DText s => Hleaf (DText s) I
    | DCharref n => Hleaf (DCharref n) I
    | DEntity n => Hleaf (DEntity n) I
    | DComment s => Hleaf (DComment s) I
    | DDoctype k s => Hleaf (DDoctype k s) I
    | DCdata k s => Hleaf (DCdata k s) I
    | DDecl s => Hleaf (DDecl s) I
    | DPi s => Hleaf (DPi s) I
    | DVoid n a p sp => Hleaf (DVoid n a p sp) I
    | DSelf n a p => Hleaf (DSelf n a p) I
    end.
End DInd.

(* ---- small facts ---- *)
Lemma memS_in n l : memS n l = true -> In n l.
Proof.
  unfold memS. intros H. apply existsb_exists in H as [x [Hin E]]. apply str_eqb_eq in E. now subst.
Qed.
Lemma in_memS n l : In n l -> memS n l = true.
Proof. intros H. unfold memS. apply existsb_exists. exists n. split; [exact H|]. now apply str_eqb_eq. Qed.
Lemma str_eqb_refl s : str_eqb s s = true.
Proof. now apply str_eqb_eq. Qed.

Lemma remove_first_incl n l x : In x (remove_first n l) -> In x l.
Proof.
  induction l as [|y l IH]; cbn; [tauto|]. destruct (str_eqb n y); cbn; intuition.
Qed.

Lemma starts_with_app p s : starts_with p (p ++ s) = true.
Proof. induction p as [|x p IH]; cbn; [reflexivity|]. now rewrite N.eqb_refl, IH. Qed.
Lemma ascii_upper_app a b : ascii_upper (a ++ b) = ascii_upper a ++ ascii_upper b.
Proof. apply map_app. Qed.
Lemma ascii_upper_length a : length (ascii_upper a) = length a.
Proof. apply map_length. Qed.
Lemma skipn_app_exact {X} (a b : list X) n : length a = n -> skipn n (a ++ b) = b.
Proof. intros <-. rewrite skipn_app, skipn_all, Nat.sub_diag. reflexivity. Qed.

(* ---- the run is compositional ---- *)
Lemma run_app sc cfg : forall a b ac o1 ac1,
  adapter_run_gen sc cfg ac a = (o1, ac1, true) ->
  adapter_run_gen sc cfg ac (a ++ b) =
  (let '(o2, ac2, ok) := adapter_run_gen sc cfg ac1 b in (o1 ++ o2, ac2, ok)).
Proof.
  induction a as [|h a IH]; intros b ac o1 ac1 H; cbn [adapter_run_gen app] in *.
  - inversion H; subst. destruct (adapter_run_gen sc cfg ac1 b) as [[o2 ac2] ok]. reflexivity.
  - destruct (adapter_step_gen sc cfg ac h) as [[o ac']|]; [|discriminate].
    destruct (adapter_run_gen sc cfg ac' a) as [[o' ac''] ok'] eqn:R. inversion H; subst.
    rewrite (IH b _ _ _ R). destruct (adapter_run_gen sc cfg ac1 b) as [[o2 ac2] ok].
    now rewrite app_assoc.
Qed.

Lemma run_one sc cfg ac h o ac' :
  adapter_step_gen sc cfg ac h = Some (o, ac') -> adapter_run_gen sc cfg ac [h] = (o, ac', true).
Proof. intros H. cbn. rewrite H. now rewrite app_nil_r. Qed.

(* ---- Theorem A: whatever the spelling, the adapter makes the canonical calls ---- *)
Definition all_void (cfg : acfg) (ac : list str) : Prop := forall n, In n ac -> can_be_empty (a_b cfg) n = true.

Lemma not_void_not_awaited cfg ac n : all_void cfg ac -> can_be_empty (a_b cfg) n = false -> memS n ac = false.
Proof.
  intros Hv Hn. destruct (memS n ac) eqn:E; [|reflexivity].
  apply memS_in in E. apply Hv in E. congruence.
Qed.

Definition canonical (cfg : acfg) (hs : list hev) (o : list out) : Prop :=
  forall ac, all_void cfg ac ->
  exists ac', adapter_run cfg ac hs = (o, ac', true) /\ all_void cfg ac'.

Lemma canonical_app cfg h1 o1 h2 o2 :
  canonical cfg h1 o1 -> canonical cfg h2 o2 -> canonical cfg (h1 ++ h2) (o1 ++ o2).
Proof.
  intros C1 C2 ac Hv. destruct (C1 ac Hv) as [ac1 [R1 V1]]. destruct (C2 ac1 V1) as [ac2 [R2 V2]].
  exists ac2. split; [|exact V2]. unfold adapter_run in *. rewrite (run_app _ _ _ _ _ _ _ R1), R2. reflexivity.
Qed.

Lemma canonical_flat_map cfg (f : dnode -> list hev) (g : dnode -> list out) l :
  Forall (fun d => canonical cfg (f d) (g d)) l -> canonical cfg (flat_map f l) (flat_map g l).
Proof.
  induction 1 as [|d l Hd _ IH]; cbn.
  - intros ac Hv. exists ac. split; [reflexivity|exact Hv].
  - now apply canonical_app.
Qed.

Lemma canonical_step cfg h o :
  (forall ac, all_void cfg ac -> exists ac', adapter_step cfg ac h = Some (o, ac') /\ all_void cfg ac') ->
  canonical cfg [h] o.
Proof.
  intros H ac Hv. destruct (H ac Hv) as [ac' [S V]]. exists ac'. split; [|exact V].
  now apply run_one.
Qed.

Lemma all_void_snoc cfg ac n : all_void cfg ac -> can_be_empty (a_b cfg) n = true -> all_void cfg (ac ++ [n]).
Proof. intros Hv Hn x Hin. apply in_app_or in Hin as [Hin|[<-|[]]]; auto. Qed.

(* the steps that matter for void elements *)
Lemma step_start_void sc cfg ac n a p : can_be_empty (a_b cfg) n = true ->
  adapter_step_gen sc cfg ac (HStart n a p) =
  Some ([(EStart n None (mk_attrs cfg a), tag_pos cfg p); (EEnd n None, None)], ac ++ [n]).
Proof. intros H. cbn [adapter_step_gen]. unfold start_tag, end_tag, tag_pos. rewrite H. reflexivity. Qed.
Lemma step_start_nonvoid sc cfg ac n a p : can_be_empty (a_b cfg) n = false ->
  adapter_step_gen sc cfg ac (HStart n a p) = Some ([(EStart n None (mk_attrs cfg a), tag_pos cfg p)], ac).
Proof. intros H. cbn [adapter_step_gen]. unfold start_tag, tag_pos. rewrite H. reflexivity. Qed.
Lemma step_startend cfg ac n a p :
  adapter_step_gen false cfg ac (HStartEnd n a p) =
  Some ([(EStart n None (mk_attrs cfg a), tag_pos cfg p); (EEnd n None, None)], ac).
Proof. cbn [adapter_step_gen]. unfold start_tag, end_tag, tag_pos. rewrite andb_false_r. reflexivity. Qed.
Lemma step_end_awaited sc cfg ac n : memS n ac = true ->
  adapter_step_gen sc cfg ac (HEnd n) = Some ([], remove_first n ac).
Proof. intros H. cbn [adapter_step_gen]. unfold end_tag. rewrite H. reflexivity. Qed.
Lemma step_end_plain sc cfg ac n : memS n ac = false ->
  adapter_step_gen sc cfg ac (HEnd n) = Some ([(EEnd n None, None)], ac).
Proof. intros H. cbn [adapter_step_gen]. unfold end_tag. rewrite H. reflexivity. Qed.

Lemma wf_kids cfg kids : forallb (wf_node cfg) kids = true -> Forall (fun d => wf_node cfg d = true) kids.
Proof. intros H. apply Forall_forall. intros x Hin. eapply forallb_forall in H; eauto. Qed.

Lemma node_canonical cfg d : wf_node cfg d = true -> canonical cfg (hev_node d) (canon_node cfg d).
Proof.
  induction d as [d Hl|n a p kids IH] using dnode_ind'.
  - destruct d; cbn [is_leaf] in Hl; try contradiction; cbn [wf_node hev_node canon_node]; intros Hw.
    + (* text *) apply canonical_step. intros ac Hv. exists ac. now split.
    + (* charref *) apply canonical_step. intros ac Hv. exists ac. split; [|exact Hv].
      unfold adapter_step, charref_text. cbn [adapter_step_gen]. destruct (charref_value name); [reflexivity|discriminate].
    + apply canonical_step. intros ac Hv. exists ac. now split.
    + apply canonical_step. intros ac Hv. exists ac. now split.
    + (* doctype *) apply canonical_step. intros ac Hv. exists ac. split; [|exact Hv].
      unfold adapter_step. cbn [adapter_step_gen]. apply Nat.eqb_eq in Hw.
      now rewrite (skipn_app_exact kw s len_doctype Hw).
    + (* CDATA *) apply canonical_step. intros ac Hv. exists ac. split; [|exact Hv].
      unfold adapter_step. cbn [adapter_step_gen]. apply str_eqb_eq in Hw.
      rewrite ascii_upper_app, Hw, starts_with_app.
      rewrite (skipn_app_exact kw s); [reflexivity|]. now rewrite <- (ascii_upper_length kw), Hw.
    + (* other declaration *) apply canonical_step. intros ac Hv. exists ac. split; [|exact Hv].
      unfold adapter_step. cbn [adapter_step_gen]. apply negb_true_iff in Hw. now rewrite Hw.
    + apply canonical_step. intros ac Hv. exists ac. now split.
    + (* void element, three spellings *)
      apply andb_prop in Hw as [Hvoid Hroot].
      destruct sp; cbn [hev_node].
      * apply canonical_step. intros ac Hv. exists (ac ++ [name]). split; [|now apply all_void_snoc].
        now apply step_start_void.
      * apply canonical_step. intros ac Hv. exists ac. split; [|exact Hv]. apply step_startend.
      * intros ac Hv. exists (remove_first name (ac ++ [name])). split.
        -- unfold adapter_run. cbn [adapter_run_gen]. rewrite (step_start_void _ _ _ _ _ _ Hvoid).
           rewrite step_end_awaited; [reflexivity|]. apply in_memS, in_or_app. right. now left.
        -- intros x Hin. apply remove_first_incl in Hin. now apply (all_void_snoc cfg ac name Hv Hvoid).
    + (* <name/> of a non-void element *)
      apply canonical_step. intros ac Hv. exists ac. split; [|exact Hv]. apply step_startend.
  - cbn [wf_node hev_node canon_node]. intros Hw.
    apply andb_prop in Hw as [Hw Hk]. apply andb_prop in Hw as [Hvoid Hroot]. apply negb_true_iff in Hvoid.
    change (HStart n a p :: flat_map hev_node kids ++ [HEnd n])
      with ([HStart n a p] ++ flat_map hev_node kids ++ [HEnd n]).
    change ((EStart n None (mk_attrs cfg a), tag_pos cfg p) :: flat_map (canon_node cfg) kids ++ [(EEnd n None, None)])
      with ([(EStart n None (mk_attrs cfg a), tag_pos cfg p)] ++ flat_map (canon_node cfg) kids ++ [(EEnd n None, None)]).
    apply canonical_app; [|apply canonical_app].
    + apply canonical_step. intros ac Hv. exists ac. split; [|exact Hv]. now apply step_start_nonvoid.
    + apply canonical_flat_map. apply wf_kids in Hk. rewrite Forall_forall in *. intros x Hin. apply IH; auto.
    + apply canonical_step. intros ac Hv. exists ac. split; [|exact Hv].
      apply step_end_plain. now apply not_void_not_awaited with cfg.
Qed.

Theorem void_any_spelling cfg doc : wf_doc cfg doc = true ->
  exists ac', adapter_run cfg [] (hevents_of doc) = (canon cfg doc, ac', true).
Proof.
  intros Hw. unfold hevents_of, canon.
  assert (C : canonical cfg (flat_map hev_node doc) (flat_map (canon_node cfg) doc)).
  { apply canonical_flat_map. apply wf_kids in Hw. rewrite Forall_forall in *. intros x Hin.
    apply node_canonical. auto. }
  destruct (C [] (fun n (H : In n []) => match H with end)) as [ac' [R _]]. now exists ac'.
Qed.

(* spelling does not matter *)
Lemma respell_node_canon cfg sp d : canon_node cfg (respell_node sp d) = canon_node cfg d.
Proof.
  induction d as [d Hl|n a p kids IH] using dnode_ind'.
  - destruct d; cbn in Hl; try contradiction; reflexivity.
  - cbn [respell_node canon_node]. f_equal. f_equal.
    induction IH as [|k l Hk _ IHl]; cbn; [reflexivity|]. now rewrite Hk, IHl.
Qed.
Lemma respell_canon cfg sp doc : canon cfg (respell sp doc) = canon cfg doc.
Proof.
  unfold canon, respell. induction doc as [|d l IH]; cbn; [reflexivity|].
  now rewrite respell_node_canon, IH.
Qed.
Lemma respell_node_wf cfg sp d : wf_node cfg (respell_node sp d) = wf_node cfg d.
Proof.
  induction d as [d Hl|n a p kids IH] using dnode_ind'.
  - destruct d; cbn in Hl; try contradiction; reflexivity.
  - cbn [respell_node wf_node]. f_equal.
    induction IH as [|k l Hk _ IHl]; cbn; [reflexivity|]. now rewrite Hk, IHl.
Qed.
Lemma respell_wf cfg sp doc : wf_doc cfg (respell sp doc) = wf_doc cfg doc.
Proof.
  unfold wf_doc, respell. induction doc as [|d l IH]; cbn; [reflexivity|].
  now rewrite respell_node_wf, IH.
Qed.

Theorem spelling_irrelevant cfg sp doc : wf_doc cfg doc = true ->
  fst (fst (adapter_run cfg [] (hevents_of (respell sp doc)))) = fst (fst (adapter_run cfg [] (hevents_of doc))).
Proof.
  intros Hw. destruct (void_any_spelling cfg doc Hw) as [ac1 R1].
  assert (Hw' : wf_doc cfg (respell sp doc) = true) by now rewrite respell_wf.
  destruct (void_any_spelling cfg (respell sp doc) Hw') as [ac2 R2].
  rewrite R1, R2. cbn. apply respell_canon.
Qed.

(* ================================================================================================
   Theorem B: the documented construction rules turn the canonical calls of a document into the
   tree the markup describes.
   ================================================================================================ *)
Definition dflt : snode := mksn None no_payload.
Definition name_at (nodes : list snode) (x : nat) : str := p_name (sn_pay (nth x nodes dflt)).
Fixpoint ncont (b : bconfig) (nodes : list snode) (open : list nat) : N :=
  match open with
  | [] => 0%N
  | x :: r => match assocS (name_at nodes x) (c_containers b) with
              | Some c => c
              | None => ncont b nodes r
              end
  end.
Definition pres (b : bconfig) (nodes : list snode) (open : list nat) : bool :=
  existsb (fun x => memS (name_at nodes x) (c_pw b)) open.
Definition ctx_at (b : bconfig) (nodes : list snode) (open : list nat) : xctx :=
  mkx (pres b nodes open) (ncont b nodes open).
Definition open_lt (nodes : list snode) (open : list nat) : Prop := Forall (fun y => y < length nodes) open.

Lemma nearest_container_eq b s open : nearest_container b s open = ncont b (s_nodes s) open.
Proof. induction open as [|x r IH]; cbn; [reflexivity|]. now rewrite IH. Qed.

Lemma name_at_app nodes l x : x < length nodes -> name_at (nodes ++ l) x = name_at nodes x.
Proof. intros H. unfold name_at. now rewrite app_nth1. Qed.
Lemma name_at_new nodes nd l : name_at (nodes ++ nd :: l) (length nodes) = p_name (sn_pay nd).
Proof. unfold name_at. rewrite app_nth2, Nat.sub_diag by lia. reflexivity. Qed.

Lemma ctx_at_app b nodes l open : open_lt nodes open -> ctx_at b (nodes ++ l) open = ctx_at b nodes open.
Proof.
  intros H. unfold ctx_at, pres. f_equal.
  - induction H as [|x r Hx _ IH]; cbn; [reflexivity|]. now rewrite name_at_app, IH.
  - induction H as [|x r Hx _ IH]; cbn; [reflexivity|]. now rewrite name_at_app, IH.
Qed.
Lemma open_lt_app nodes l open : open_lt nodes open -> open_lt (nodes ++ l) open.
Proof. intros H. eapply Forall_impl; [|exact H]. cbn. intros a Ha. rewrite app_length. lia. Qed.

(* sizes and layout *)
Lemma xsize_tag n a v ks : xsize (XTag n a v ks) = S (xsizes ks).
Proof. reflexivity. Qed.
Lemma flat_tree_tag p i n a v ks :
  flat_tree p i (XTag n a v ks) = mksn (Some p) (mkpl n None a 0%N v) :: flat_forest i (S i) ks.
Proof.
  cbn. f_equal. generalize (S i). induction ks as [|k l IH]; intros j; cbn; [reflexivity|]. now rewrite IH.
Qed.

Section XInd.
  Variable P : xtree -> Prop.
  Hypothesis Hstr : forall k s, P (XStr k s).
  Hypothesis Htag : forall n a v ks, Forall P ks -> P (XTag n a v ks).
  Fixpoint xtree_ind' (t : xtree) : P t :=
    match t with
    | XStr k s => Hstr k s
    | XTag n a v ks =>
        Htag n a v ks ((fix go (l : list xtree) : Forall P l :=
                          match l with
                          | [] => Forall_nil P
                          | k :: l' => Forall_cons k (xtree_ind' k) (go l')
                          end) ks)
    end.
End XInd.

Lemma flat_forest_length_of p j l :
  Forall (fun t => forall p j, length (flat_tree p j t) = xsize t) l -> length (flat_forest p j l) = xsizes l.
Proof.
  intros H. revert j. induction H as [|t l Ht _ IH]; intros j; cbn; [reflexivity|].
  now rewrite app_length, Ht, IH.
Qed.
Lemma flat_tree_length t : forall p j, length (flat_tree p j t) = xsize t.
Proof.
  induction t as [k s|n a v ks IH] using xtree_ind'; intros p j.
  - reflexivity.
  - rewrite flat_tree_tag, xsize_tag. cbn [length]. f_equal. now apply flat_forest_length_of.
Qed.
Lemma flat_forest_length p j l : length (flat_forest p j l) = xsizes l.
Proof. apply flat_forest_length_of. apply Forall_forall. intros t _. apply flat_tree_length. Qed.
Lemma xsizes_app a b : xsizes (a ++ b) = xsizes a + xsizes b.
Proof. induction a as [|t a IH]; cbn; [reflexivity|]. rewrite IH. lia. Qed.
Lemma flat_forest_app p j l1 l2 :
  flat_forest p j (l1 ++ l2) = flat_forest p j l1 ++ flat_forest p (j + xsizes l1) l2.
Proof.
  revert j. induction l1 as [|t l IH]; intros j; cbn.
  - now rewrite Nat.add_0_r.
  - rewrite IH, <- app_assoc. do 3 f_equal. lia.
Qed.

(* s_flush in terms of the specification's xflush *)
Lemma s_flush_eq b nodes x rest pend cls :
  s_flush b (mkss nodes (x :: rest) pend) cls =
  mkss (nodes ++ flat_forest x (length nodes) (xflush b (ctx_at b nodes (x :: rest)) pend cls)) (x :: rest) [].
Proof.
  destruct pend as [|t pend].
  - cbn. now rewrite app_nil_r.
  - unfold s_flush, xflush. cbn [s_pending s_open s_nodes hd_error].
    rewrite nearest_container_eq. cbn [s_nodes ctx_at x_pres x_cont flat_forest flat_tree].
    rewrite app_nil_r. reflexivity.
Qed.

(* [grows b c evs pend ts pend']: from any state whose innermost open element is x and whose context
   is c, with pend gathered, the events add the trees ts as the next children of x, leave the same
   elements open and leave pend' gathered *)
Definition grows (b : bconfig) (c : xctx) (evs : list event) (pend : list str) (ts : list xtree)
           (pend' : list str) : Prop :=
  forall nodes x rest, open_lt nodes (x :: rest) -> ctx_at b nodes (x :: rest) = c ->
    fold_left (s_step b) evs (mkss nodes (x :: rest) pend) =
    mkss (nodes ++ flat_forest x (length nodes) ts) (x :: rest) pend'.

Lemma grows_nil b c pend : grows b c [] pend [] pend.
Proof. intros nodes x rest _ _. cbn. now rewrite app_nil_r. Qed.

Lemma grows_app b c e1 e2 p0 p1 p2 t1 t2 :
  grows b c e1 p0 t1 p1 -> grows b c e2 p1 t2 p2 -> grows b c (e1 ++ e2) p0 (t1 ++ t2) p2.
Proof.
  intros G1 G2 nodes x rest Hlt Hc. rewrite fold_left_app, (G1 _ _ _ Hlt Hc).
  rewrite G2.
  - rewrite flat_forest_app, <- app_assoc, app_length, flat_forest_length. reflexivity.
  - now apply open_lt_app.
  - now rewrite ctx_at_app.
Qed.

Lemma grows_data b c s pend : grows b c [EData s] pend [] (s :: pend).
Proof. intros nodes x rest _ _. cbn. now rewrite app_nil_r. Qed.

Lemma grows_flush b c pend cls : grows b c [EEndData cls] pend (xflush b c pend cls) [].
Proof. intros nodes x rest _ Hc. cbn [fold_left s_step]. now rewrite s_flush_eq, Hc. Qed.

Lemma grows_special b c pend s k :
  grows b c (events_of (special s k)) pend (xflush b c pend None ++ xflush b c [s] (Some k)) [].
Proof.
  change (events_of (special s k)) with ([EEndData None] ++ [EData s] ++ [EEndData (Some k)]).
  eapply grows_app; [apply grows_flush|].
  change (xflush b c [s] (Some k)) with ([] ++ xflush b c [s] (Some k)).
  eapply grows_app; [apply grows_data|apply grows_flush].
Qed.

Lemma grows_elem b c n a kevs ks kp pend :
  str_eqb n (c_root b) = false ->
  grows b (enter b c n) kevs [] ks kp ->
  grows b c (EStart n None a :: kevs ++ [EEnd n None]) pend
        (xflush b c pend None ++ [XTag n a (can_be_empty b n) (ks ++ xflush b (enter b c n) kp None)]) [].
Proof.
  intros Hroot Gk nodes x rest Hlt Hc.
  cbn [fold_left]. rewrite fold_left_app. cbn [fold_left].
  (* the start tag *)
  cbn [s_step]. rewrite s_flush_eq, Hc. cbn [s_nodes s_open hd_error].
  set (F0 := flat_forest x (length nodes) (xflush b c pend None)).
  set (N1 := nodes ++ F0).
  set (tn := mksn (Some x) (mkpl n None a 0%N (can_be_empty b n))).
  assert (Hlt1 : open_lt (N1 ++ [tn]) (length N1 :: x :: rest)).
  { constructor; [rewrite app_length; cbn; lia|]. apply open_lt_app. unfold N1. now apply open_lt_app. }
  assert (Hc1 : ctx_at b (N1 ++ [tn]) (length N1 :: x :: rest) = enter b c n).
  { unfold ctx_at, enter, pres. cbn [existsb ncont]. rewrite name_at_new. cbn [sn_pay p_name tn].
    fold (pres b (N1 ++ [tn]) (x :: rest)).
    assert (E : ctx_at b (N1 ++ [tn]) (x :: rest) = c).
    { rewrite ctx_at_app; [|unfold N1; now apply open_lt_app]. unfold N1. now rewrite ctx_at_app. }
    unfold ctx_at in E. rewrite <- E. reflexivity. }
  (* the children *)
  rewrite (Gk _ _ _ Hlt1 Hc1).
  set (N2 := (N1 ++ [tn]) ++ flat_forest (length N1) (length (N1 ++ [tn])) ks).
  (* the end tag *)
  cbn [s_step]. rewrite s_flush_eq.
  assert (Hc2 : ctx_at b N2 (length N1 :: x :: rest) = enter b c n)
    by (unfold N2; rewrite ctx_at_app; assumption).
  rewrite Hc2, ?Hroot.   (* ?: the root-name test of the end tag, where the rules have one *)
  cbn [s_open close_through s_nodes s_pending].
  assert (Hn : s_name (mkss (N2 ++ flat_forest (length N1) (length N2) (xflush b (enter b c n) kp None))
                            (length N1 :: x :: rest) []) (length N1) = n).
  { unfold s_name. cbn [s_nodes]. unfold N2. rewrite <- !app_assoc. cbn [app].
    rewrite app_nth2, Nat.sub_diag by lia. reflexivity. }
  assert (Hp : s_prefix (mkss (N2 ++ flat_forest (length N1) (length N2) (xflush b (enter b c n) kp None))
                              (length N1 :: x :: rest) []) (length N1) = None).
  { unfold s_prefix. cbn [s_nodes]. unfold N2. rewrite <- !app_assoc. cbn [app].
    rewrite app_nth2, Nat.sub_diag by lia. reflexivity. }
  rewrite Hn, Hp, str_eqb_refl. cbn [opt_str_eqb andb].
  (* the layout *)
  f_equal. unfold N2, N1, F0.
  rewrite flat_forest_app. cbn [flat_forest]. rewrite flat_tree_tag, app_nil_r.
  rewrite flat_forest_app. rewrite !app_length, !flat_forest_length. cbn [length].
  rewrite <- !app_assoc. cbn [app]. f_equal. f_equal.
  rewrite !Nat.add_1_r. reflexivity.
Qed.

Lemma events_of_app a b : events_of (a ++ b) = events_of a ++ events_of b.
Proof. apply map_app. Qed.

(* the nested recursion of expect_node is expect_list *)
Lemma expect_node_elem cfg c pend n a p kids :
  expect_node cfg c pend (DElem n a p kids) =
  (let c' := enter (a_b cfg) c n in
   let '(ks, kp) := expect_list cfg c' [] kids in
   (xflush (a_b cfg) c pend None ++
    [XTag n (mk_attrs cfg a) (can_be_empty (a_b cfg) n) (ks ++ xflush (a_b cfg) c' kp None)], [])).
Proof.
  cbn [expect_node]. cbv zeta.
  assert (E : forall l pend0,
    (fix go (pend : list str) (l : list dnode) {struct l} : list xtree * list str :=
       match l with
       | [] => ([], pend)
       | k :: l' => let '(t1, p1) := expect_node cfg (enter (a_b cfg) c n) pend k in
                    let '(t2, p2) := go p1 l' in (t1 ++ t2, p2)
       end) pend0 l = expect_list cfg (enter (a_b cfg) c n) pend0 l).
  { induction l as [|k l IH]; intros pend0; cbn [expect_list]; [reflexivity|].
    destruct (expect_node cfg (enter (a_b cfg) c n) pend0 k) as [t1 p1]. now rewrite IH. }
  now rewrite E.
Qed.

Definition node_ok (cfg : acfg) (d : dnode) : Prop :=
  forall c pend ts p', expect_node cfg c pend d = (ts, p') ->
  grows (a_b cfg) c (events_of (canon_node cfg d)) pend ts p'.

Lemma list_grows cfg l : Forall (node_ok cfg) l ->
  forall c pend ts p', expect_list cfg c pend l = (ts, p') ->
  grows (a_b cfg) c (events_of (flat_map (canon_node cfg) l)) pend ts p'.
Proof.
  induction 1 as [|d l Hd _ IH]; intros c pend ts p' E; cbn [expect_list flat_map] in *.
  - inversion E; subst. apply grows_nil.
  - destruct (expect_node cfg c pend d) as [t1 p1] eqn:E1.
    destruct (expect_list cfg c p1 l) as [t2 p2] eqn:E2. inversion E; subst.
    rewrite events_of_app. eapply grows_app; [apply (Hd _ _ _ _ E1)|apply (IH _ _ _ _ E2)].
Qed.

Lemma grows_leaf_tag b c n a pend : str_eqb n (c_root b) = false ->
  grows b c [EStart n None a; EEnd n None] pend (xflush b c pend None ++ [XTag n a (can_be_empty b n) []]) [].
Proof.
  intros Hr. pose proof (grows_elem b c n a [] [] [] pend Hr (grows_nil b (enter b c n) [])) as G.
  cbn [app xflush] in G. exact G.
Qed.

Lemma node_grows cfg d : wf_node cfg d = true -> node_ok cfg d.
Proof.
  induction d as [d Hl|n a p kids IH] using dnode_ind'.
  - destruct d; cbn [is_leaf] in Hl; try contradiction; intros Hw c pend ts p' E;
      cbn [expect_node canon_node wf_node] in *; try (inversion E; subst; clear E).
    + apply grows_data.
    + apply grows_data.
    + apply grows_data.
    + apply grows_special.
    + apply grows_special.
    + apply grows_special.
    + apply grows_special.
    + apply grows_special.
    + apply andb_prop in Hw as [_ Hr]. apply negb_true_iff in Hr. now apply grows_leaf_tag.
    + apply andb_prop in Hw as [_ Hr]. apply negb_true_iff in Hr. now apply grows_leaf_tag.
  - intros Hw c pend ts p' E. rewrite expect_node_elem in E. cbv zeta in E.
    destruct (expect_list cfg (enter (a_b cfg) c n) [] kids) as [ks kp] eqn:Ek. inversion E; subst; clear E.
    cbn [wf_node] in Hw. apply andb_prop in Hw as [Hw Hk]. apply andb_prop in Hw as [_ Hr].
    apply negb_true_iff in Hr.
    cbn [canon_node events_of map]. fold (events_of (flat_map (canon_node cfg) kids ++ [(EEnd n None, None)])).
    rewrite events_of_app. cbn [events_of map fst].
    apply grows_elem; [exact Hr|].
    eapply list_grows; [|exact Ek].
    apply wf_kids in Hk. rewrite Forall_forall in *. intros x Hin. apply IH; auto.
Qed.

Theorem tree_of_canon cfg doc : wf_doc cfg doc = true ->
  spec_run (a_b cfg) (events_of (canon cfg doc)) = flat (a_b cfg) (expect cfg doc).
Proof.
  intros Hw. unfold spec_run, expect, flat, canon.
  destruct (expect_list cfg (root_ctx (a_b cfg)) [] doc) as [ts p] eqn:E.
  assert (G : grows (a_b cfg) (root_ctx (a_b cfg)) (events_of (flat_map (canon_node cfg) doc)) [] ts p).
  { eapply list_grows; [|exact E]. apply wf_kids in Hw. rewrite Forall_forall in *. intros x Hin.
    apply node_grows. auto. }
  unfold s_start. rewrite (G [mksn None (mkpl (c_root (a_b cfg)) None [] 0%N false)] 0 []).
  - rewrite s_flush_eq. cbn [s_nodes].
    rewrite ctx_at_app; [|repeat constructor].
    replace (ctx_at (a_b cfg) [mksn None (mkpl (c_root (a_b cfg)) None [] 0%N false)] [0]) with (root_ctx (a_b cfg)).
    + rewrite flat_forest_app, app_length, flat_forest_length. cbn [length app]. unfold root_node.
      reflexivity.
    + unfold ctx_at, root_ctx, enter, ctx0, pres. cbn. rewrite orb_false_r.
      destruct (assocS (c_root (a_b cfg)) (c_containers (a_b cfg))); reflexivity.
  - repeat constructor.
  - unfold ctx_at, root_ctx, enter, ctx0, pres. cbn. rewrite orb_false_r.
    destruct (assocS (c_root (a_b cfg)) (c_containers (a_b cfg))); reflexivity.
Qed.

(* both halves: callbacks of an ideal tokenizer, through the adapter, through the documented
   construction rules = the tree the markup describes *)
Theorem document_tree cfg doc : wf_doc cfg doc = true ->
  spec_run (a_b cfg) (events_of (fst (fst (adapter_run cfg [] (hevents_of doc))))) = flat (a_b cfg) (expect cfg doc).
Proof.
  intros Hw. destruct (void_any_spelling cfg doc Hw) as [ac R]. rewrite R. cbn [fst].
  now apply tree_of_canon.
Qed.

(* ================================================================================================
   Theorem V: for ANY callback stream (malformed input included), an element that may be empty
   (a void element) never gets a child.
   ================================================================================================ *)
Definition void_at (nodes : list snode) (y : nat) : bool := p_void (sn_pay (nth y nodes dflt)).

Record inv (s : sstate) : Prop := mkinv {
  i_open : s_open s <> [];
  i_lt : open_lt (s_nodes s) (s_open s);
  i_openvoid : forall y, In y (s_open s) -> void_at (s_nodes s) y = false;
  i_parent : forall i nd q, nth_error (s_nodes s) i = Some nd -> sn_parent nd = Some q ->
                            q < length (s_nodes s) /\ void_at (s_nodes s) q = false
}.

Lemma void_at_app nodes l y : y < length nodes -> void_at (nodes ++ l) y = void_at nodes y.
Proof. intros H. unfold void_at. now rewrite app_nth1. Qed.

(* adding one node whose parent is the innermost open element keeps the invariant, whether or not
   the node is pushed on the stack of open elements (only non-void ones are) *)
Lemma inv_add s nd pend push :
  inv s -> sn_parent nd = hd_error (s_open s) ->
  (push = true -> p_void (sn_pay nd) = false) ->
  inv (mkss (s_nodes s ++ [nd]) (if push then length (s_nodes s) :: s_open s else s_open s) pend).
Proof.
  intros [Ho Hl Hv Hp] Hpar Hpush.
  assert (Hl' : open_lt (s_nodes s ++ [nd]) (s_open s)) by now apply open_lt_app.
  assert (Hv' : forall y, In y (s_open s) -> void_at (s_nodes s ++ [nd]) y = false).
  { intros y Hy. rewrite void_at_app; [now apply Hv|]. unfold open_lt in Hl. rewrite Forall_forall in Hl. now apply Hl. }
  constructor; cbn [s_open s_nodes].
  - destruct push; [discriminate|exact Ho].
  - destruct push; [|exact Hl']. constructor; [rewrite app_length; cbn; lia|exact Hl'].
  - destruct push; [|exact Hv']. intros y [<-|Hy]; [|now apply Hv'].
    unfold void_at. rewrite app_nth2, Nat.sub_diag by lia. cbn. now apply Hpush.
  - intros i nd' q Hn Hq. destruct (Nat.lt_ge_cases i (length (s_nodes s))) as [Hi|Hi].
    + rewrite nth_error_app1 in Hn by exact Hi. destruct (Hp _ _ _ Hn Hq) as [Hq1 Hq2].
      split; [rewrite app_length; lia|]. now rewrite void_at_app.
    + rewrite nth_error_app2 in Hn by exact Hi.
      destruct (i - length (s_nodes s)) as [|k]; [|destruct k; discriminate].
      cbn in Hn. inversion Hn; subst nd'. rewrite Hpar in Hq.
      destruct (s_open s) as [|x r] eqn:E; [discriminate|]. cbn in Hq. inversion Hq; subst q.
      assert (Hx : In x (x :: r)) by now left.
      split.
      * rewrite app_length. unfold open_lt in Hl. rewrite Forall_forall in Hl. specialize (Hl x Hx). lia.
      * now apply Hv'.
Qed.

Lemma inv_pending s pend : inv s -> inv (mkss (s_nodes s) (s_open s) pend).
Proof. intros [Ho Hl Hv Hp]. constructor; assumption. Qed.

Lemma inv_flush b s cls : inv s -> inv (s_flush b s cls).
Proof.
  intros H. unfold s_flush. destruct (s_pending s) as [|t r] eqn:E; [exact H|].
  apply (inv_add s _ [] false H); [reflexivity|discriminate].
Qed.
Lemma flush_open b s cls : s_open (s_flush b s cls) = s_open s.
Proof. unfold s_flush. destruct (s_pending s); reflexivity. Qed.
Lemma flush_pending b s cls : s_pending (s_flush b s cls) = [].
Proof. unfold s_flush. destruct (s_pending s) eqn:E; [exact E|reflexivity]. Qed.
Lemma flush_idle b s cls : s_pending s = [] -> s_flush b s cls = s.
Proof. unfold s_flush. now intros ->. Qed.

Lemma close_through_suffix s n p open r :
  close_through s n p open = Some r -> r <> [] /\ exists pre, open = pre ++ r.
Proof.
  revert r. induction open as [|x rest IH]; intros r H; cbn in H; [discriminate|].
  destruct rest as [|y rest']; [discriminate|].
  destruct (str_eqb n (s_name s x) && opt_str_eqb p (s_prefix s x)).
  - inversion H; subst. split; [discriminate|]. now exists [x].
  - destruct (IH _ H) as [Hr [pre E]]. split; [exact Hr|]. exists (x :: pre). now rewrite E.
Qed.

Lemma inv_shrink s r : inv s -> r <> [] -> (exists pre, s_open s = pre ++ r) ->
  inv (mkss (s_nodes s) r (s_pending s)).
Proof.
  intros [Ho Hl Hv Hp] Hr [pre E]. constructor; cbn [s_open s_nodes]; try assumption.
  - unfold open_lt in *. rewrite E in Hl. now apply Forall_app in Hl as [_ Hl].
  - intros y Hy. apply Hv. rewrite E. apply in_or_app. now right.
Qed.

Lemma inv_end b s n p : inv s -> inv (s_step b s (EEnd n p)).
Proof.
  intros H. cbn [s_step]. pose proof (inv_flush b s None H) as H1.
  try (destruct (str_eqb n (c_root b)); [exact H1|]).
  destruct (close_through (s_flush b s None) n p (s_open (s_flush b s None))) as [r|] eqn:C; [|exact H1].
  apply close_through_suffix in C as [Hr Hpre]. now apply inv_shrink.
Qed.

Lemma inv_start_nonvoid b s n p a : can_be_empty b n = false -> inv s -> inv (s_step b s (EStart n p a)).
Proof.
  intros Hn H. cbn [s_step]. pose proof (inv_flush b s None H) as H1.
  apply (inv_add (s_flush b s None) _ [] true H1); [reflexivity|]. intros _. exact Hn.
Qed.

(* a start tag immediately followed by its end tag: the element is closed again, childless *)
Lemma inv_start_end b s n a : str_eqb n (c_root b) = false -> inv s ->
  inv (s_step b (s_step b s (EStart n None a)) (EEnd n None)).
Proof.
  intros Hr H. pose proof (inv_flush b s None H) as H1.
  remember (s_flush b s None) as s1 eqn:Es1.
  destruct (s_open s1) as [|x r] eqn:Eo; [exfalso; now apply (i_open _ H1)|].
  pose (nd := mksn (Some x) (mkpl n None a 0%N (can_be_empty b n))).
  assert (E1 : s_step b s (EStart n None a) = mkss (s_nodes s1 ++ [nd]) (length (s_nodes s1) :: x :: r) []).
  { cbn [s_step]. rewrite <- Es1, Eo. reflexivity. }
  rewrite E1. cbn [s_step]. rewrite flush_idle by reflexivity. rewrite ?Hr. cbn [s_open close_through].
  assert (Hn : s_name (mkss (s_nodes s1 ++ [nd]) (length (s_nodes s1) :: x :: r) []) (length (s_nodes s1)) = n).
  { unfold s_name. cbn [s_nodes]. rewrite app_nth2, Nat.sub_diag by lia. reflexivity. }
  assert (Hp : s_prefix (mkss (s_nodes s1 ++ [nd]) (length (s_nodes s1) :: x :: r) []) (length (s_nodes s1)) = None).
  { unfold s_prefix. cbn [s_nodes]. rewrite app_nth2, Nat.sub_diag by lia. reflexivity. }
  rewrite Hn, Hp, str_eqb_refl. cbn [andb opt_str_eqb s_nodes s_pending].
  pose proof (inv_add s1 nd [] false H1) as A. rewrite Eo in A. cbn [hd_error] in A.
  apply A; [reflexivity|discriminate].
Qed.

Lemma inv_events b evs s : inv s ->
  Forall (fun e => match e with EStart _ _ _ => False | _ => True end) evs ->
  inv (fold_left (s_step b) evs s).
Proof.
  intros H F. revert s H. induction F as [|e l He _ IH]; intros s H; cbn [fold_left]; [exact H|].
  apply IH. destruct e; [contradiction| |cbn [s_step]|cbn [s_step]].
  - now apply inv_end.
  - now apply (inv_pending s (s0 :: s_pending s)).
  - now apply inv_flush.
Qed.

Definition start_names_ok (b : bconfig) (hs : list hev) : Prop :=
  Forall (fun h => match h with
                   | HStart n _ _ | HStartEnd n _ _ => str_eqb n (c_root b) = false
                   | _ => True end) hs.

Lemma inv_step cfg ac h o ac' s :
  adapter_step cfg ac h = Some (o, ac') ->
  (match h with HStart n _ _ | HStartEnd n _ _ => str_eqb n (c_root (a_b cfg)) = false | _ => True end) ->
  inv s -> inv (fold_left (s_step (a_b cfg)) (events_of o) s).
Proof.
  intros S Hn H. unfold adapter_step in S. destruct h.
  - (* start tag *)
    destruct (can_be_empty (a_b cfg) name) eqn:V.
    + rewrite (step_start_void false cfg ac name attrs p V) in S. inversion S; subst.
      cbn [events_of map fst fold_left]. now apply inv_start_end.
    + rewrite (step_start_nonvoid false cfg ac name attrs p V) in S. inversion S; subst.
      cbn [events_of map fst fold_left]. now apply inv_start_nonvoid.
  - rewrite (step_startend cfg ac name attrs p) in S.
    inversion S; subst. cbn [events_of map fst fold_left]. now apply inv_start_end.
  - cbn [adapter_step_gen] in S. unfold end_tag in S.
    destruct (true && memS name ac); inversion S; subst; cbn [events_of map fst fold_left].
    + exact H.
    + now apply inv_end.
  - cbn [adapter_step_gen] in S. inversion S; subst. apply inv_events; [exact H|repeat constructor].
  - cbn [adapter_step_gen] in S. destruct (charref_value name); inversion S; subst.
    apply inv_events; [exact H|repeat constructor].
  - cbn [adapter_step_gen] in S. inversion S; subst. apply inv_events; [exact H|repeat constructor].
  - cbn [adapter_step_gen] in S. inversion S; subst. apply inv_events; [exact H|repeat constructor].
  - cbn [adapter_step_gen] in S. inversion S; subst. apply inv_events; [exact H|repeat constructor].
  - cbn [adapter_step_gen] in S. destruct (starts_with s_cdata_open (ascii_upper s0)); inversion S; subst;
      (apply inv_events; [exact H|repeat constructor]).
  - cbn [adapter_step_gen] in S. inversion S; subst. apply inv_events; [exact H|repeat constructor].
Qed.

Lemma inv_run cfg : forall hs ac s, start_names_ok (a_b cfg) hs -> inv s ->
  inv (fold_left (s_step (a_b cfg)) (events_of (fst (fst (adapter_run cfg ac hs)))) s).
Proof.
  induction hs as [|h r IH]; intros ac s Hn H; unfold adapter_run in *; cbn [adapter_run_gen].
  - exact H.
  - inversion Hn as [|? ? Hh Hr]; subst.
    destruct (adapter_step_gen false cfg ac h) as [[o ac1]|] eqn:S; [|exact H].
    specialize (IH ac1). destruct (adapter_run_gen false cfg ac1 r) as [[o2 ac2] ok] eqn:R.
    cbn [fst] in *. rewrite events_of_app, fold_left_app. apply IH; [exact Hr|].
    eapply inv_step; eauto.
Qed.

Lemma inv_start b : inv (s_start b).
Proof.
  constructor; cbn.
  - discriminate.
  - repeat constructor.
  - intros y [<-|[]]. reflexivity.
  - intros i nd q Hn Hq. destruct i as [|i]; cbn in Hn; [|destruct i; discriminate].
    inversion Hn; subst. discriminate.
Qed.

Theorem void_childless_any_stream cfg hs : start_names_ok (a_b cfg) hs ->
  let nodes := spec_run (a_b cfg) (events_of (fst (fst (adapter_run cfg [] hs)))) in
  forall i nd, nth_error nodes i = Some nd -> p_void (sn_pay nd) = true -> children_of nodes i = [].
Proof.
  intros Hn nodes i nd Hi Hv. unfold spec_run in nodes.
  set (sf := s_flush (a_b cfg) (fold_left (s_step (a_b cfg)) (events_of (fst (fst (adapter_run cfg [] hs)))) (s_start (a_b cfg))) None) in *.
  assert (J : inv sf).
  { apply inv_flush. apply inv_run; [exact Hn|apply inv_start]. }
  subst nodes. unfold children_of.
  assert (F : forall y, In y (seq 0 (length (s_nodes sf))) ->
              (match sn_parent (nth y (s_nodes sf) (mksn None no_payload)) with Some p => Nat.eqb p i | None => false end) = false).
  { intros y Hy. apply in_seq in Hy. destruct (sn_parent (nth y (s_nodes sf) (mksn None no_payload))) as [q|] eqn:Q; [|reflexivity].
    destruct (Nat.eqb q i) eqn:Eq; [|reflexivity]. apply Nat.eqb_eq in Eq. subst q. exfalso.
    assert (Hy' : nth_error (s_nodes sf) y = Some (nth y (s_nodes sf) (mksn None no_payload))) by (apply nth_error_nth'; lia).
    destruct (i_parent _ J y _ i Hy' Q) as [_ Hvi].
    unfold void_at in Hvi. rewrite (nth_error_nth _ _ dflt Hi) in Hvi. congruence. }
  induction (seq 0 (length (s_nodes sf))) as [|y l IH]; cbn; [reflexivity|].
  rewrite F by now left. apply IH. intros z Hz. apply F. now right.
Qed.

(* the adapter as it was before the fix does not have this property: <br><br/>x *)
Definition html_cfg : acfg :=
  mkacfg (mkcfg (Some default_empty_element_tags) default_preserve_whitespace_tags default_string_containers
                ascii_spaces root_tag_name)
         DupReplace (fun d _ _ => d) true None.
Definition br : str := [98; 114]%N.
Definition witness_doc : list dnode := [DVoid br [] (1, 0)%N SpOpen; DVoid br [] (1, 4)%N SpSelf; DText [120%N]].

Theorem unfixed_adapter_refuted :
  wf_doc html_cfg witness_doc = true /\
  fst (fst (adapter_run_gen true html_cfg [] (hevents_of witness_doc))) <> canon html_cfg witness_doc /\
  exists i nd, nth_error (spec_run (a_b html_cfg) (events_of (fst (fst (adapter_run_gen true html_cfg [] (hevents_of witness_doc)))))) i = Some nd
               /\ p_void (sn_pay nd) = true
               /\ children_of (spec_run (a_b html_cfg) (events_of (fst (fst (adapter_run_gen true html_cfg [] (hevents_of witness_doc)))))) i <> [].
Proof.
  split; [vm_compute; reflexivity|]. split.
  - vm_compute. discriminate.
  - exists 2, (mksn (Some 0) (mkpl br None [] 0%N true)). vm_compute. repeat split; discriminate.
Qed.

(* the hypotheses of the theorems are satisfiable, with every kind of node *)
Definition example_doc : list dnode :=
  [DDoctype [68;79;67;84;89;80;69;32]%N [104;116;109;108]%N;
   DElem [112]%N [([99;108;97;115;115]%N, Some [97;32;98]%N)] (1, 15)%N
     [DText [97]%N; DVoid br [] (1, 19)%N SpOpen; DEntity [97;109;112]%N; DCharref [120;52;49]%N;
      DVoid br [] (1, 30)%N SpSelf; DVoid br [] (1, 35)%N SpPair; DComment [99]%N;
      DCdata [99;100;97;116;97;91]%N [100]%N; DDecl [105;102]%N; DPi [112;105]%N; DSelf [98]%N [] (1, 60)%N];
   DText [10]%N].
Example example_doc_wf : wf_doc html_cfg example_doc = true.
Proof. vm_compute. reflexivity. Qed.
Example example_doc_tree :
  flat (a_b html_cfg) (expect html_cfg example_doc) =
  spec_run (a_b html_cfg) (events_of (fst (fst (adapter_run html_cfg [] (hevents_of example_doc))))).
Proof. vm_compute. reflexivity. Qed.

(* ================================================================================================
   References and attributes
   ================================================================================================ *)
Open Scope N_scope.

(* bs4's entity table is the standard library's html5 table (names without the ';') *)
Lemma entity_table_eq : html_entity_to_character = html5_reference.
Proof. vm_compute. reflexivity. Qed.

Theorem entityref_sem name :
  entity_data name = match assocS name html5_reference with Some chars => chars | None => c_amp :: name end.
Proof. unfold entity_data. now rewrite entity_table_eq. Qed.

(* positional notation *)
Lemma num_of_snoc base ds d : num_of base (ds ++ [d]) = num_of base ds * base + digit_val d.
Proof. unfold num_of. now rewrite fold_left_app. Qed.

Lemma is_digit_not_x c : is_digit c = true -> (c =? 120) = false /\ (c =? 88) = false.
Proof.
  unfold is_digit. intros H. apply andb_prop in H as [H1 H2]. apply N.leb_le in H1, H2.
  split; apply N.eqb_neq; lia.
Qed.
Lemma is_hexd_not_x c : is_hexd c = true -> (c =? 120) = false /\ (c =? 88) = false.
Proof.
  unfold is_hexd, is_digit. intros H. split; apply N.eqb_neq; intros ->; vm_compute in H; discriminate.
Qed.

Theorem charref_value_decimal ds : nonempty_all is_digit ds = true -> charref_value ds = Some (num_of 10 ds).
Proof.
  destruct ds as [|c ds]; [discriminate|]. intros H. unfold charref_value. rewrite H.
  cbn [nonempty_all forallb] in H. apply andb_prop in H as [Hc _].
  destruct (is_digit_not_x c Hc) as [-> ->]. reflexivity.
Qed.

Theorem charref_value_hex x hs : x = 120 \/ x = 88 -> nonempty_all is_hexd hs = true ->
  charref_value (x :: hs) = Some (num_of 16 hs).
Proof.
  intros Hx H. destruct hs as [|c hs]; [discriminate|].
  assert (Hc : is_hexd c = true) by (cbn [nonempty_all forallb] in H; now apply andb_prop in H as [Hc _]).
  destruct (is_hexd_not_x c Hc) as [E1 E2].
  unfold charref_value. destruct Hx as [-> | ->].
  - cbn [lstrip_char]. rewrite N.eqb_refl, E1. cbn [N.eqb]. now rewrite H.
  - replace (88 =? 120) with false by reflexivity. rewrite N.eqb_refl. cbn [lstrip_char]. rewrite N.eqb_refl, E2. now rewrite H.
Qed.

(* the windows-1252 oracle table agrees with Unicode outside 0x80-0x9F *)
Lemma cp1252_outside_c1 :
  forallb (fun n => let v := N.of_nat n in
                    if (v <? 128) || (160 <=? v)
                    then match nth n cp1252_table None with Some c => c =? v | None => false end
                    else true) (seq 0 256) = true.
Proof. vm_compute. reflexivity. Qed.

Lemma decode_cp1252_latin v : v < 128 \/ (160 <= v /\ v < 256) -> decode_cp1252 v = Some [v].
Proof.
  intros H. pose proof cp1252_outside_c1 as T. rewrite forallb_forall in T.
  assert (Hin : In (N.to_nat v) (seq 0 256)) by (apply in_seq; lia).
  specialize (T _ Hin). cbn zeta in T. rewrite N2Nat.id in T.
  replace ((v <? 128) || (160 <=? v)) with true in T.
  - unfold decode_cp1252. destruct (nth (N.to_nat v) cp1252_table None) as [c|]; [|discriminate].
    apply N.eqb_eq in T. now subst.
  - symmetry. apply orb_true_iff. destruct H as [H|[H _]]; [left; now apply N.ltb_lt|right; now apply N.leb_le].
Qed.

Theorem charref_unicode orig v : 256 <= v -> v < 1114112 -> charref_data orig v = [v].
Proof.
  intros H1 H2. unfold charref_data.
  replace (v <? 256) with false by (symmetry; apply N.ltb_ge; lia).
  replace (v <? 1114112) with true by (symmetry; apply N.ltb_lt; lia). reflexivity.
Qed.
Theorem charref_out_of_range orig v : 1114112 <= v -> charref_data orig v = [65533].
Proof.
  intros H. unfold charref_data.
  replace (v <? 256) with false by (symmetry; apply N.ltb_ge; lia).
  replace (v <? 1114112) with false by (symmetry; apply N.ltb_ge; lia). reflexivity.
Qed.
Theorem charref_latin orig v : v < 128 \/ (160 <= v /\ v < 256) -> charref_data orig v = [v].
Proof.
  intros H. unfold charref_data.
  replace (v <? 256) with true by (symmetry; apply N.ltb_lt; lia).
  rewrite (decode_cp1252_latin v H). reflexivity.
Qed.
(* 0x80-0x9F: re-read as windows-1252; where that is undefined, as the document's own encoding;
   failing that, the code point itself *)
Theorem charref_c1 orig v : 128 <= v -> v < 160 ->
  charref_data orig v =
  match nth (N.to_nat v) cp1252_table None with
  | Some c => [c]
  | None => match orig with
            | Some f => match f v with Some (x :: r) => x :: r | _ => [v] end
            | None => [v]
            end
  end.
Proof.
  intros H1 H2. unfold charref_data, decode_cp1252.
  replace (v <? 256) with true by (symmetry; apply N.ltb_lt; lia).
  replace (v <? 1114112) with true by (symmetry; apply N.ltb_lt; lia).
  destruct (nth (N.to_nat v) cp1252_table None) as [c|]; [reflexivity|].
  destruct orig as [f|]; [|reflexivity]. destruct (f v) as [[|x r]|]; reflexivity.
Qed.

(* attributes keep their names, values and order *)
Definition attr_plain (kv : str * option str) : str * str :=
  (fst kv, match snd kv with Some s => s | None => [] end).

Lemma dget_none_app k d k' v : dget k d = None -> akey_eqb k k' = false -> dget k (d ++ [(k', v)]) = None.
Proof.
  induction d as [|[k0 v0] d IH]; cbn; intros H E.
  - now rewrite E.
  - destruct (akey_eqb k k0); [discriminate|]. now apply IH.
Qed.
Lemma dset_absent k v d : dget k d = None -> dset k v d = d ++ [(k, v)].
Proof.
  induction d as [|[k0 v0] d IH]; cbn; intros H; [reflexivity|].
  destruct (akey_eqb k k0); [discriminate|]. now rewrite IH.
Qed.

Lemma collect_distinct od pol : forall attrs d,
  NoDup (map fst attrs) ->
  (forall kv, In kv attrs -> dget (akey_of (fst kv)) d = None) ->
  fold_left (dup_step plain_setitem od pol) (map (fun kv => (akey_of (fst kv), snd kv)) attrs) d =
  d ++ map (fun kv => (akey_of (fst kv), VStr (snd (attr_plain kv)))) attrs.
Proof.
  induction attrs as [|[k v] attrs IH]; intros d Hnd Habs; cbn [map fold_left].
  - now rewrite app_nil_r.
  - cbn [map fst] in Hnd. inversion Hnd as [|? ? Hnotin Hnd']; subst.
    assert (E : dup_step plain_setitem od pol d (akey_of k, v) = d ++ [(akey_of k, VStr (snd (attr_plain (k, v))))]).
    { pose proof (Habs (k, v) (or_introl eq_refl)) as A. cbn [fst] in A.
      unfold dup_step. cbn [fst snd]. rewrite A.
      unfold plain_setitem. now rewrite dset_absent. }
    cbn [fst snd] in *. rewrite E, IH; [now rewrite <- app_assoc|exact Hnd'|].
    intros [k' v'] Hin. cbn [fst]. apply dget_none_app.
    + apply (Habs (k', v')). now right.
    + unfold akey_eqb, akey_of. cbn [k_full]. destruct (str_eqb k' k) eqn:Ek; [|reflexivity].
      apply str_eqb_eq in Ek. subst k'. exfalso. apply Hnotin. apply in_map_iff. now exists (k, v').
Qed.

Theorem attrs_kept cfg attrs : NoDup (map fst attrs) -> mk_attrs cfg attrs = map attr_plain attrs.
Proof.
  intros H. unfold mk_attrs, collect_attrs. rewrite collect_distinct; [|exact H|reflexivity].
  cbn [app]. unfold attrs_out. rewrite map_map. apply map_ext. intros [k v]. reflexivity.
Qed.

(* a redundant end tag after an automatically closed void element does nothing at all *)
Theorem redundant_end_ignored cfg ac n a p : can_be_empty (a_b cfg) n = true ->
  exists ac1, adapter_step cfg ac (HStart n a p) =
              Some ([(EStart n None (mk_attrs cfg a), tag_pos cfg p); (EEnd n None, None)], ac1) /\
              exists ac2, adapter_step cfg ac1 (HEnd n) = Some ([], ac2).
Proof.
  intros H. exists (ac ++ [n]). split; [now apply step_start_void|].
  exists (remove_first n (ac ++ [n])). apply step_end_awaited. apply in_memS, in_or_app. right. now left.
Qed.

(* ================================================================================================
   The tokenizer may hand a run of text over in arbitrary chunks: that never matters.
   ================================================================================================ *)
Open Scope nat_scope.
Definition same_text (p q : list str) : Prop :=
  concat (rev p) = concat (rev q) /\ (p = [] <-> q = []).
Definition seq_state (s t : sstate) : Prop :=
  s_nodes s = s_nodes t /\ s_open s = s_open t /\ same_text (s_pending s) (s_pending t).

Lemma seq_refl s : seq_state s s.
Proof. repeat split; auto. Qed.

Lemma s_flush_seq b s t cls : seq_state s t -> s_flush b s cls = s_flush b t cls.
Proof.
  destruct s as [n1 o1 p1], t as [n2 o2 p2]. intros [Hn [Ho [Hc He]]]. cbn in *. subst n2 o2.
  unfold s_flush. cbn [s_pending s_nodes s_open].
  destruct p1 as [|x p1], p2 as [|y p2].
  - reflexivity.
  - exfalso. destruct He as [He _]. specialize (He eq_refl). discriminate.
  - exfalso. destruct He as [_ He]. specialize (He eq_refl). discriminate.
  - rewrite Hc. unfold s_name. cbn [s_nodes]. rewrite !nearest_container_eq. cbn [s_nodes]. reflexivity.
Qed.

Lemma s_step_seq b e s t : seq_state s t -> seq_state (s_step b s e) (s_step b t e).
Proof.
  intros H. destruct e; cbn [s_step].
  - rewrite (s_flush_seq b s t None H). apply seq_refl.
  - rewrite (s_flush_seq b s t None H). apply seq_refl.
  - destruct H as [Hn [Ho [Hc He]]]. repeat split; cbn [s_nodes s_open s_pending]; auto.
    + cbn [rev]. rewrite !concat_app, Hc. reflexivity.
    + discriminate.
    + discriminate.
  - rewrite (s_flush_seq b s t cls H). apply seq_refl.
Qed.

Lemma fold_seq b evs : forall s t, seq_state s t ->
  seq_state (fold_left (s_step b) evs s) (fold_left (s_step b) evs t).
Proof. induction evs as [|e l IH]; intros s t H; cbn; [exact H|]. apply IH. now apply s_step_seq. Qed.

Lemma spec_run_chunks b pre a c post :
  spec_run b (pre ++ EData a :: EData c :: post) = spec_run b (pre ++ EData (a ++ c) :: post).
Proof.
  unfold spec_run. rewrite !fold_left_app. cbn [fold_left s_step].
  set (s := fold_left (s_step b) pre (s_start b)).
  f_equal. apply s_flush_seq. apply fold_seq.
  repeat split; cbn [s_nodes s_open s_pending]; auto; try discriminate.
  cbn [rev]. rewrite !concat_app. cbn [concat]. rewrite !app_nil_r, <- app_assoc. reflexivity.
Qed.

Lemma run_chunks cfg : forall pre ac a c post,
  exists e1 e2,
    events_of (fst (fst (adapter_run cfg ac (pre ++ HData a :: HData c :: post)))) = e1 ++ EData a :: EData c :: e2 /\
    events_of (fst (fst (adapter_run cfg ac (pre ++ HData (a ++ c) :: post)))) = e1 ++ EData (a ++ c) :: e2
  \/ events_of (fst (fst (adapter_run cfg ac (pre ++ HData a :: HData c :: post)))) =
     events_of (fst (fst (adapter_run cfg ac (pre ++ HData (a ++ c) :: post)))).
Proof.
  unfold adapter_run. induction pre as [|h pre IH]; intros ac a c post; cbn [app adapter_run_gen adapter_step_gen].
  - destruct (adapter_run_gen false cfg ac post) as [[o ac'] ok]. cbn [fst app events_of map].
    exists [], (events_of o). left. split; reflexivity.
  - destruct (adapter_step_gen false cfg ac h) as [[o1 ac1]|].
    + destruct (IH ac1 a c post) as [e1 [e2 [[E1 E2]|E]]].
      * destruct (adapter_run_gen false cfg ac1 (pre ++ HData a :: HData c :: post)) as [[oa aca] oka].
        destruct (adapter_run_gen false cfg ac1 (pre ++ HData (a ++ c) :: post)) as [[ob acb] okb].
        cbn [fst] in *. exists (events_of o1 ++ e1), e2. left.
        rewrite !events_of_app, E1, E2, <- !app_assoc. split; reflexivity.
      * destruct (adapter_run_gen false cfg ac1 (pre ++ HData a :: HData c :: post)) as [[oa aca] oka].
        destruct (adapter_run_gen false cfg ac1 (pre ++ HData (a ++ c) :: post)) as [[ob acb] okb].
        cbn [fst] in *. exists [], []. right. now rewrite !events_of_app, E.
    + exists [], []. right. reflexivity.
Qed.

Theorem text_chunking_irrelevant cfg pre a c post :
  spec_run (a_b cfg) (events_of (fst (fst (adapter_run cfg [] (pre ++ HData a :: HData c :: post))))) =
  spec_run (a_b cfg) (events_of (fst (fst (adapter_run cfg [] (pre ++ HData (a ++ c) :: post))))).
Proof.
  destruct (run_chunks cfg pre [] a c post) as [e1 [e2 [[E1 E2]|E]]].
  - rewrite E1, E2. apply spec_run_chunks.
  - now rewrite E.
Qed.

Example start_names_example : start_names_ok (a_b html_cfg) (hevents_of example_doc).
Proof. unfold start_names_ok. cbn. repeat constructor. Qed.

(* ================================================================================================
   Special strings keep exactly their content, for every document
   ================================================================================================ *)
Theorem special_flush_kept b c s k : preformatted_cls k = true -> xflush b c [s] (Some k) = [XStr k s].
Proof.
  intros Hk. unfold xflush. cbn [rev app concat]. rewrite app_nil_r, Hk. cbn [negb andb].
  replace (N.eqb k 0) with false; [reflexivity|].
  destruct k as [|p]; [discriminate|reflexivity].
Qed.

(* wherever a comment, CDATA section, doctype, declaration or processing instruction stands in a
   document (any context c, any text gathered before it), it becomes one string of its class with
   exactly the content written, right after the run of text before it *)
Theorem special_content_kept cfg c pend d k s : special_of d = Some (k, s) ->
  expect_node cfg c pend d = (xflush (a_b cfg) c pend None ++ [XStr k s], []).
Proof.
  intros H. destruct d; cbn [special_of] in H; try discriminate; inversion H; subst; clear H;
    cbn [expect_node]; now rewrite special_flush_kept.
Qed.

Corollary special_alone_kept cfg d k s : special_of d = Some (k, s) -> expect cfg [d] = [XStr k s].
Proof.
  intros H. unfold expect. cbn [expect_list]. rewrite (special_content_kept _ _ _ _ _ _ H).
  cbn [xflush app]. reflexivity.
Qed.
