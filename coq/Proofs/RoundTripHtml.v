(* C05 — the token-level round trip with the substitution functions and readers of C09 plugged in:
   'html' (substitute_html, Model/EntitySubst.v) and 'minimal' (substitute_xml), element text read by
   bs4's reader (Model/SmartQuotes.v read_text, the same definition C09 uses) and attribute values by
   the model of html.unescape (Model/EntitySubst.v unescape) — what html.parser applies to a quoted value.
   Nothing about the functions is assumed: C09's theorems (html_escaped, escaped_reads_back,
   replace_dq_transparent) discharge the hypotheses of Proofs/RoundTripProofs.v roundtrip_tokens. *)
From Coq Require Import List NArith ZArith Bool Arith Lia.
From BS Require Import Base.Sexp Base.Types Base.Reader Model.Attrs Model.Render Model.Reparse Model.Build Model.SmartQuotes
     Spec.BuildSpec Spec.RoundTrip Proofs.RoundTripProofs.
From BS Require Model.EntitySubst Spec.EntitiesSpec Proofs.EntitiesTables Proofs.EntitiesProofs Proofs.EntitiesAttrProofs.
Import ListNotations.

(* the quoting rule of the render model is the one C09 reasons about *)
Lemma replace_dq_same v : Render.replace_dq v = EntitySubst.replace_dq v.
Proof.
  unfold EntitySubst.replace_dq. induction v as [|c v IH]; [reflexivity|]. cbn [Render.replace_dq flat_map].
  unfold dq_, c_dq. destruct (c =? 34)%N; rewrite IH; reflexivity.
Qed.

(* what stands between the quotes reads, under html.unescape, as the text before quoting *)
Lemma unescape_attr_inner o : EntitySubst.unescape (attr_inner o) = EntitySubst.unescape o.
Proof.
  unfold attr_inner. destruct (memN dq_ o && memN sq_ o); [|reflexivity].
  rewrite replace_dq_same. apply EntitiesAttrProofs.replace_dq_transparent.
Qed.

(* any text written with known references and no other ampersand (C09's [enc]) reads back in both positions *)
Lemma enc_reads_back o s : EntitiesSpec.enc o s ->
  read_text o = s /\ EntitySubst.unescape (attr_inner o) = s.
Proof.
  intros H. destruct (EntitiesProofs.escaped_reads_back o s H) as (H1 & H2 & _).
  split; [exact H1|]. now rewrite unescape_attr_inner.
Qed.

(* ---- 'html' ---- *)
Lemma html_reads_back s :
  read_text (EntitySubst.substitute_html s) = s /\
  EntitySubst.unescape (attr_inner (EntitySubst.substitute_html s)) = s.
Proof. apply enc_reads_back. apply EntitiesProofs.html_escaped. Qed.

Theorem roundtrip_html enc f rc cfg t :
  f_subst f = Some EntitySubst.substitute_html -> f_void f <> [] ->
  memS (c_root cfg) (c_pw cfg) = false -> assocS (c_root cfg) (c_containers cfg) = None ->
  representable_top f rc cfg t = true ->
  spec_run cfg (read_tokens read_text EntitySubst.unescape rc (tokens_of enc f t)) = flat_tree cfg (norm enc f cfg t).
Proof.
  intros Hs Hv H1 H2 Hr.
  apply (roundtrip_tokens enc f read_text EntitySubst.unescape rc cfg EntitySubst.substitute_html Hs eq_refl
           (fun s => proj1 (html_reads_back s)) eq_refl (fun s => proj2 (html_reads_back s)) Hv eq_refl H1 H2 t Hr).
Qed.

(* ---- 'minimal', attribute values through html.unescape as well ---- *)
Lemma enc_esc both : forall s, EntitiesSpec.enc (flat_map (esc both) s) s.
Proof.
  induction s as [|c s IH]; [constructor|]. cbn [flat_map]. unfold esc.
  destruct (N.eqb_spec c 38) as [->|H1].
  { exact (EntitiesSpec.enc_ref EntitiesTables.n_amp [c_amp] _ s EntitiesTables.known_amp IH). }
  destruct (N.eqb_spec c 60) as [->|H2].
  { exact (EntitiesSpec.enc_ref EntitiesTables.n_lt [c_lt] _ s EntitiesTables.known_lt IH). }
  destruct (N.eqb_spec c 62) as [->|H3].
  { exact (EntitiesSpec.enc_ref EntitiesTables.n_gt [c_gt] _ s EntitiesTables.known_gt IH). }
  destruct (both && (c =? 34)%N) eqn:E.
  { apply andb_prop in E as [_ E]. apply N.eqb_eq in E. subst c.
    exact (EntitiesSpec.enc_ref EntitiesTables.n_quot [c_dq] _ s EntitiesTables.known_quot IH). }
  cbn [app]. apply EntitiesSpec.enc_plain; [exact H1|exact IH].
Qed.
Lemma minimal_reads_back s :
  read_text (subst_xml s) = s /\ EntitySubst.unescape (attr_inner (subst_xml s)) = s.
Proof. rewrite subst_xml_esc. apply enc_reads_back. apply enc_esc. Qed.

Theorem roundtrip_minimal_unescape enc f rc cfg t :
  f_subst f = Some subst_xml -> f_void f <> [] ->
  memS (c_root cfg) (c_pw cfg) = false -> assocS (c_root cfg) (c_containers cfg) = None ->
  representable_top f rc cfg t = true ->
  spec_run cfg (read_tokens read_text EntitySubst.unescape rc (tokens_of enc f t)) = flat_tree cfg (norm enc f cfg t).
Proof.
  intros Hs Hv H1 H2 Hr.
  apply (roundtrip_tokens enc f read_text EntitySubst.unescape rc cfg subst_xml Hs eq_refl
           (fun s => proj1 (minimal_reads_back s)) eq_refl (fun s => proj2 (minimal_reads_back s)) Hv eq_refl H1 H2 t Hr).
Qed.
