(* C13 — end to end: the refinement theorems of Proofs/TextProofs.v assume [rep1 h T linked]; the C01
   development proves that every state reached by parsing ANY event list under ANY configuration and
   then applying ANY finite history of admissible editing calls is [consistent] (Proofs/EditRep.v,
   Proofs/ParseConsistent.v), and that in a consistent state every live element lies in a tree with
   rep1.  Composed here: on every such state, for every live element, the chain walk of the code yields
   what the recursive evaluator prescribes, with the fuel the extracted model uses (fuel_of s). *)
From Coq Require Import List NArith Bool Arith Lia.
From BS Require Import Base.Sexp Base.Types Model.Heap Model.Edit Model.EditOps Model.Build Model.Iter Model.Text
     Spec.Tree Spec.TextSpec Proofs.Views Proofs.EditRep Proofs.ParseConsistent Proofs.TextProofs.
Import ListNotations.
Local Open Scope nat_scope.

Lemma pre_is_rids : forall t, pre t = map rid (subterms t).
Proof.
  induction t as [i ks IH] using tree_ind'. cbn [pre subterms map rid]. f_equal.
  induction ks as [|k ks IHk]; [reflexivity|].
  inversion IH as [|? ? Hk Hks]; subst. cbn [flat_map]. rewrite map_app, Hk, (IHk Hks). reflexivity.
Qed.

Lemma in_pre_subterm x T : In x (pre T) -> exists t, In t (subterms T) /\ rid t = x.
Proof.
  rewrite pre_is_rids. intros H. apply in_map_iff in H. destruct H as (t & E & Ht). exists t. split; assumption.
Qed.

Lemma nodup_bounded_length (l : list nat) n : NoDup l -> (forall x, In x l -> x < n) -> length l <= n.
Proof.
  intros ND Hlt. rewrite <- (seq_length n 0). apply NoDup_incl_length; [exact ND|].
  intros x Hx. apply in_seq. specialize (Hlt x Hx). lia.
Qed.

Lemma tree_fits_fuel F s T b : cons_with F s -> In (T, b) F -> rep1 (hp s) T b -> length (pre T) <= fuel_of s.
Proof.
  intros (_ & Hlt & _) Hin Hrep. unfold fuel_of.
  enough (length (pre T) <= nxt s) by lia.
  apply nodup_bounded_length; [apply (rep1_NoDup (hp s) T b Hrep)|].
  intros x Hx. apply Hlt. unfold fids. apply in_flat_map. exists (T, b). split; [exact Hin|exact Hx].
Qed.

Section EndToEnd.
  Variable p : tpay.

  (* any consistent state (C01's invariant), any live element *)
  Theorem consistent_text_extraction : forall s x strip types,
    consistent s -> live s x ->
    exists T b t, rep1 (hp s) T b /\ In t (subterms T) /\ rid t = x /\
      tag_all_strings (fuel_of s) (hp s) p x strip types =
        texts_below (fun y => negb (is_tag (hp s) y)) (t_cls p) (fun y => txt (hp s y))
                    (type_selected (tag_types p x types)) py_strip strip t /\
      string_prop (fuel_of s) (hp s) x =
        (if negb (is_tag (hp s) x) then SIs x
         else match sole (fun y => negb (is_tag (hp s) y)) t with Some z => SIs z | None => SNone end).
  Proof.
    intros s x strip types Hc Hl.
    destruct (consistent_views_premise s x Hc Hl) as (F & T & b & Hcw & HinF & Hx & Hrep).
    destruct (in_pre_subterm x T Hx) as (t & Ht & Hr).
    pose proof (tree_fits_fuel F s T b Hcw HinF Hrep) as Hfuel.
    exists T, b, t. split; [exact Hrep|]. split; [exact Ht|]. split; [exact Hr|]. subst x. split.
    - apply (tag_strings_refine (hp s) p T b t (fuel_of s) strip types Hrep Ht Hfuel).
    - apply (string_prop_spec (hp s) T b t (fuel_of s) Hrep Ht Hfuel).
  Qed.

  (* THE PROPERTY's quantifier: parse any event list under any configuration, apply any finite history of
     editing calls (inadmissible ones are skipped, as run_history does), pick any live element *)
  Theorem text_extraction_after_parse_and_history : forall cfg evs ops x strip types,
    let s := run_history (b_st (feed cfg evs)) ops in
    live s x ->
    exists T b t, rep1 (hp s) T b /\ In t (subterms T) /\ rid t = x /\
      tag_all_strings (fuel_of s) (hp s) p x strip types =
        texts_below (fun y => negb (is_tag (hp s) y)) (t_cls p) (fun y => txt (hp s y))
                    (type_selected (tag_types p x types)) py_strip strip t /\
      string_prop (fuel_of s) (hp s) x =
        (if negb (is_tag (hp s) x) then SIs x
         else match sole (fun y => negb (is_tag (hp s) y)) t with Some z => SIs z | None => SNone end).
  Proof.
    intros cfg evs ops x strip types s Hl.
    apply consistent_text_extraction; [apply parse_then_edit_consistent|exact Hl].
  Qed.
End EndToEnd.
