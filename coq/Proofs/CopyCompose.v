(* C12 composed with C05 / C03 (pickling) and with C01 / C02 (the six links of a copy). *)
From Coq Require Import String List NArith ZArith Bool Arith Lia.
From BS Require Import Base.Sexp Base.Types Base.Lit Gen.Tables Gen.T_C05 Model.Attrs Model.Render Model.Reparse
     Model.SmartQuotes Model.Build Spec.BuildSpec Spec.RenderSpec Spec.RoundTrip Proofs.RenderProofs Proofs.RoundTripProofs.
From BS Require Import Spec.Tree Model.Copy Spec.CopySpec Proofs.CopyProofs.
Import ListNotations.
Open Scope nat_scope.

(* ------------------------------------------------------------------------------------------ *)
(* 1. pickling a document = C05's round trip                                                  *)
(* ------------------------------------------------------------------------------------------ *)
(* The pickled "builder" is what the re-parse depends on: how html.parser + BeautifulSoupHTMLParser
   read tokens (rcfg) and the tree builder's construction configuration (bconfig).  The markup is
   kept as the token sequence whose spelling decode() returns (C05_decode_is_spelled_tokens); that
   the standard-library tokenizer cuts the text back into these tokens is measured, as in C05. *)
Definition pbuilder : Type := (rcfg * bconfig)%type.
Definition pickle_feed {O : Type} (b : pbuilder) (_ : O) (toks : list token) : list snode :=
  spec_run (snd b) (read_tokens read_text read_text (fst b) toks).

(* __getstate__ calls self.decode(): indent_level=None, formatter="minimal" (Gen/T_C12.v);
   'minimal' is substitute_xml with "/" before the ">" of a void element (C05_formatter_registry) *)
Theorem pickle_roundtrip (O : Type) enc f (rc : rcfg) (cfg : bconfig) (o : O) (t : node) :
  f_subst f = Some subst_xml -> f_void f <> [] ->
  memS (c_root cfg) (c_pw cfg) = false -> assocS (c_root cfg) (c_containers cfg) = None ->
  representable_top f rc cfg t = true ->
  let d := mkdoc (rc, cfg) o t in
  let k := getstate (tokens_of enc f) d in
  let u := setstate pickle_feed k in
  d_tree u = flat_tree cfg (norm enc f cfg t) /\
  d_builder u = (rc, cfg) /\ d_other u = o /\
  decode enc f None t = List.concat (map spell (k_markup k)).
Proof.
  intros H1 H2 H3 H4 H5. cbn. repeat split.
  - unfold pickle_feed. cbn [fst snd]. now apply roundtrip_minimal.
  - apply decode_is_spelled_tokens.
Qed.

(* the HTML builder and the HTML 'minimal' formatter of the shipped registries: nothing assumed but
   that the document is representable *)
Definition html_minimal : fmt := mkfmt (Some subst_xml) (lit "/"%string) html_cdata_containing_tags false (lit " "%string).

Theorem pickle_roundtrip_html (O : Type) enc check (o : O) (t : node) :
  representable_top html_minimal (html_rcfg check) html_bcfg t = true ->
  let d := mkdoc (html_rcfg check, html_bcfg) o t in
  let u := setstate pickle_feed (getstate (tokens_of enc html_minimal) d) in
  d_tree u = flat_tree html_bcfg (norm enc html_minimal html_bcfg t) /\
  d_builder u = (html_rcfg check, html_bcfg) /\ d_other u = o.
Proof.
  intros H.
  destruct (pickle_roundtrip O enc html_minimal (html_rcfg check) html_bcfg o t) as (A & B & C & _);
    auto; try discriminate.
  all: repeat split; assumption.
Qed.

(* ------------------------------------------------------------------------------------------ *)
(* 2. the six links of a copy (C01 / C02)                                                     *)
(* ------------------------------------------------------------------------------------------ *)
From BS Require Import Model.Heap Model.Iter Model.Edit Model.EditOps Spec.ListEdit
     Proofs.HeapBasics Proofs.EditFrames Proofs.EditBase Proofs.EditRep Proofs.ListEditProofs Proofs.EditEffect.
From BS Require Import Model.Copy Spec.CopySpec Proofs.CopyProofs.

(* The loop of __deepcopy__ on the six-link heap of Model/Heap.v: a clone is a new element of the
   same kind and label (alloc), hung under the clone on top of the tag stack by the real append()
   (op_append = Tag.insert(len(contents), .) = _insert, all pointer writes of Model/Heap.v). *)
Definition clone6 (s : Edit.st) (e : nat) : Edit.st * nat := alloc s (kind (hp s e)) (txt (hp s e)).

Fixpoint dc_loop6 (s : Edit.st) (evs : list (ekind * nat)) (stack : list nat) : option Edit.st :=
  match evs with
  | [] => Some s
  | (EvEnd, _) :: r => match stack with [] => None | _ :: st' => dc_loop6 s r st' end
  | (k, e) :: r =>
      match stack with
      | [] => None
      | top :: _ =>
          let '(s1, d) := clone6 s e in
          match op_append s1 top (AEl d) with
          | Ok s2 => dc_loop6 s2 r (match k with EvStart => d :: stack | _ => stack end)
          | ValueError => None
          end
      end
  end.

Definition deepcopy6 (s : Edit.st) (evs : list (ekind * nat)) (x : nat) : option (Edit.st * nat) :=
  let '(s1, clone) := clone6 s x in
  match dc_loop6 s1 evs [clone] with Some s2 => Some (s2, clone) | None => None end.

(* the two-store state of Model/Copy.v and the six-link state describe the same forest of live
   elements: same allocation counter, same .parent and .contents, tags where there are tags *)
Definition sim (cs : cstate) (s : Edit.st) : Prop :=
  nn cs = nxt s /\
  forall i, live s i ->
    c_par (nh cs i) = par (hp s i) /\ c_kids (nh cs i) = kids (hp s i) /\ is_tagb cs i = is_tag (hp s) i.

(* append() of a new element, on the six-link state *)
Lemma op_append_el s d x : x <> d -> kind (hp s x) <> KSoup ->
  op_append s d (AEl x) =
  match insert1 (fuel_of s) (hp s) d (List.length (kids (hp s d))) x with
  | Some h => Ok (with_heap s h)
  | None => ValueError
  end.
Proof.
  intros Hne Hk. unfold op_append, op_insert. cbn [insert_args insert_arg].
  apply Nat.eqb_neq in Hne. rewrite Hne.
  destruct (kind (hp s x)) eqn:E; try contradiction;
    destruct (insert1 (fuel_of s) (hp s) d (List.length (kids (hp s d))) x); reflexivity.
Qed.

Lemma filter_notin x K : ~ In x K -> filter (fun y => negb (mem y [x])) K = K.
Proof.
  induction K as [|a K IH]; intros H; [reflexivity|]. cbn [filter]. unfold mem at 1. cbn [existsb].
  destruct (Nat.eqb a x) eqn:E.
  - apply Nat.eqb_eq in E. subst. exfalso. apply H. now left.
  - cbn. f_equal. apply IH. intros Hi. apply H. now right.
Qed.

Lemma splice_append x K : ~ In x K -> splice_spec (List.length K) [x] K = K ++ [x].
Proof.
  intros H. unfold splice_spec. rewrite firstn_all, !filter_notin by assumption.
  rewrite firstn_all, skipn_all. reflexivity.
Qed.

Lemma link_step s d k t :
  consistent s -> live s d -> is_tag (hp s) d = true -> k <> KSoup ->
  let s1 := fst (alloc s k t) in let x := nxt s in
  exists s2, op_append s1 d (AEl x) = Ok s2 /\ consistent s2 /\ nxt s2 = S (nxt s) /\
    (forall y, y < nxt s -> meta (hp s2 y) = meta (hp s y)) /\ meta (hp s2 x) = (k, t, false) /\
    kids (hp s2 d) = kids (hp s d) ++ [x] /\ par (hp s2 x) = Some d /\ kids (hp s2 x) = [] /\
    (forall q, live s q -> q <> d -> kids (hp s2 q) = kids (hp s q)) /\
    (forall y, live s y -> par (hp s2 y) = par (hp s y)).
Proof.
  intros C Ld Td Hk. cbv zeta.
  destruct (alloc_into d s k t C Ld) as (Hinto & _ & Lx & Hx & Nanc). cbn [alloc fst snd] in *.
  set (s1 := Edit.mkst (upd (hp s) (nxt s) (blank k t)) (S (nxt s))) in *.
  pose proof Hinto as [E1 _]. pose proof (evo_consistent _ _ _ E1) as C1.
  pose proof (evo_live _ _ _ _ E1 Ld) as Ld1.
  assert (Td1 : is_tag (hp s1) d = true) by (rewrite (evo_tag d s s1 d E1 Ld); exact Td).
  assert (Hold : forall y, y < nxt s -> hp s1 y = hp s y).
  { intros y Hy. unfold s1. cbn [hp]. apply upd_other. lia. }
  assert (Hxd : nxt s <> d) by (destruct Ld; lia).
  assert (Kx : kind (hp s1 (nxt s)) <> KSoup) by (rewrite Hx; exact Hk).
  assert (W : wf_op s1 (OInsert d (List.length (kids (hp s1 d))) [AEl (nxt s)])).
  { cbn [wf_op]. split; [exact Ld1|]. split; [exact Td1|]. constructor; [|constructor]. split; assumption. }
  assert (EA : elem_args s1 [AEl (nxt s)] [nxt s]).
  { split; [reflexivity|]. split; [constructor; [intros []|constructor]|]. constructor; [exact Kx|constructor]. }
  assert (W' : wf_op s1 (OAppend d (AEl (nxt s)))).
  { cbn [wf_op]. split; [exact Ld1|]. split; [exact Td1|]. split; assumption. }
  destruct (op_total s1 (OAppend d (AEl (nxt s))) C1 W' eq_refl) as (s2 & Hop & C2).
  cbn [apply_op] in Hop. exists s2. split; [exact Hop|]. split; [exact C2|].
  pose proof Hop as Hop'. rewrite (op_append_el s1 d (nxt s) Hxd Kx) in Hop'.
  destruct (insert1 (fuel_of s1) (hp s1) d (List.length (kids (hp s1 d))) (nxt s)) as [h|] eqn:Ei; [|discriminate].
  inversion Hop'; subst s2. clear Hop'.
  assert (Hnotkid : forall q, live s1 q -> ~ In (nxt s) (kids (hp s1 q))).
  { intros q Lq. apply (not_kid s1 q (nxt s) C1 Lq). rewrite Hx. cbn. discriminate. }
  unfold op_append in Hop.
  pose proof (op_insert_documented s1 d _ _ _ _ C1 W EA Hop) as Kd.
  destruct (op_insert_frame s1 d _ _ _ _ C1 W EA Hop) as (Fk & Fp & Fo).
  rewrite (splice_append _ _ (Hnotkid d Ld1)) in Kd.
  destruct (move_into s1 d (List.length (kids (hp s1 d))) (nxt s) C1 Ld1 Td1 Lx Nanc (or_introl Kx))
    as (h' & Ei' & [E2 _] & Pp & Po).
  rewrite Ei in Ei'. inversion Ei'; subst h'. clear Ei'.
  destruct E2 as (_ & _ & M2 & _).
  assert (Hlive1 : forall y, live s y -> live s1 y) by (intros y Ly; eapply evo_live; eauto).
  assert (Hd1 : hp s1 d = hp s d) by (apply Hold; destruct Ld; assumption).
  cbn [with_heap hp nxt] in *.
  split; [reflexivity|]. split.
  { intros y Hy. rewrite (M2 y) by (unfold s1; cbn [nxt]; lia). now rewrite (Hold y Hy). }
  split.
  { rewrite (M2 (nxt s)) by (unfold s1; cbn [nxt]; lia). rewrite Hx. reflexivity. }
  split; [now rewrite Kd, Hd1|]. split; [exact Pp|]. split.
  { rewrite (Fk (nxt s) Lx Hxd). rewrite Hx. reflexivity. }
  split.
  - intros q Lq Hq. rewrite (Fk q (Hlive1 q Lq) Hq). rewrite filter_notin by (apply Hnotkid; auto).
    f_equal. apply Hold. destruct Lq; assumption.
  - intros y Ly. rewrite Po by (destruct Ly; lia). f_equal. apply Hold. destruct Ly; assumption.
Qed.

Lemma clone1_struct fuel cs e :
  let cs1 := fst (clone1 fuel cs e) in let d := snd (clone1 fuel cs e) in
  d = nn cs /\ nn cs1 = S (nn cs) /\ (forall i, i <> nn cs -> nh cs1 i = nh cs i) /\
  c_par (nh cs1 d) = None /\ c_kids (nh cs1 d) = [] /\ is_tagb cs1 d = is_tagb cs e.
Proof.
  cbv zeta. unfold clone1, copy_self, is_tagb.
  destruct (c_pay (nh cs e)) as [a|c t] eqn:Ep.
  - destruct (t_soup a).
    + unfold alloc_node. cbn [fst snd nh nn]. rewrite nupd_same. cbn [c_par c_kids c_pay].
      repeat split; auto. intros i Hi. now apply nupd_other.
    + destruct (copy_attrs cs (t_attrs a)) as [S1 a'] eqn:Ea.
      destruct (copy_attrs_frame _ _ _ _ Ea) as (A1 & A2 & _).
      unfold alloc_node. cbn [fst snd nh nn]. rewrite A1, A2, nupd_same. cbn [c_par c_kids c_pay].
      repeat split; auto. intros i Hi. now apply nupd_other.
  - unfold alloc_node. cbn [fst snd nh nn]. rewrite nupd_same. cbn [c_par c_kids c_pay].
    repeat split; auto. intros i Hi. now apply nupd_other.
Qed.

Lemma is_tag_kind h h' x y : kind (h' y) = kind (h x) -> is_tag h' y = is_tag h x.
Proof. intros H. unfold is_tag. now rewrite H. Qed.

Definition ev_ok (s : Edit.st) (ev : ekind * nat) : Prop :=
  match fst ev with
  | EvEnd => True
  | k => live s (snd ev) /\ kind (hp s (snd ev)) <> KSoup /\ (k = EvStart -> is_tag (hp s) (snd ev) = true)
  end.
Definition stack_ok (s : Edit.st) (p : nat) : Prop := live s p /\ is_tag (hp s) p = true.

Lemma meta_live s s' y : y < nxt s -> nxt s <= nxt s' -> meta (hp s' y) = meta (hp s y) -> (live s y <-> live s' y).
Proof.
  intros Hy Hn M. unfold live. rewrite (meta_dead _ _ M). split; intros [A B]; split; auto; lia.
Qed.

Lemma dc_sim : forall evs fuel cs s stack cs',
  consistent s -> sim cs s -> Forall (ev_ok s) evs -> Forall (stack_ok s) stack ->
  dc_loop fuel cs evs stack = Some cs' ->
  exists s', dc_loop6 s evs stack = Some s' /\ consistent s' /\ sim cs' s' /\
             nxt s <= nxt s' /\ (forall y, y < nxt s -> meta (hp s' y) = meta (hp s y)).
Proof.
  induction evs as [|[k e] evs IH]; intros fuel cs s stack cs' C Hsim Hev Hst H.
  - cbn in H. inversion H; subst. exists s. cbn.
    split; [reflexivity|]. split; [exact C|]. split; [exact Hsim|]. split; [lia | auto].
  - inversion Hev as [|? ? Hk Hev']; subst.
    assert (Hend : k = EvEnd -> exists s', dc_loop6 s ((k, e) :: evs) stack = Some s' /\ consistent s' /\ sim cs' s' /\
             nxt s <= nxt s' /\ (forall y, y < nxt s -> meta (hp s' y) = meta (hp s y))).
    { intros ->. cbn [dc_loop dc_loop6] in *. destruct stack as [|top st']; [discriminate|].
      inversion Hst; subst. eapply IH; eauto. }
    assert (Hgen : k <> EvEnd -> exists s', dc_loop6 s ((k, e) :: evs) stack = Some s' /\ consistent s' /\ sim cs' s' /\
             nxt s <= nxt s' /\ (forall y, y < nxt s -> meta (hp s' y) = meta (hp s y))).
    { intros Hne.
      assert (Hk' : live s e /\ kind (hp s e) <> KSoup /\ (k = EvStart -> is_tag (hp s) e = true)).
      { unfold ev_ok in Hk. cbn [fst snd] in Hk. destruct k; try exact Hk. contradiction. }
      destruct Hk' as (Le & Ke & Te).
      assert (Hm : dc_loop fuel cs ((k, e) :: evs) stack =
                   match stack with
                   | [] => None
                   | top :: _ => let '(S1, d) := clone1 fuel cs e in
                                 dc_loop fuel (append_child S1 top d) evs (match k with EvStart => d :: stack | _ => stack end)
                   end) by (destruct k; try reflexivity; contradiction).
      assert (H6 : dc_loop6 s ((k, e) :: evs) stack =
                   match stack with
                   | [] => None
                   | top :: _ => let '(s1, d) := clone6 s e in
                                 match op_append s1 top (AEl d) with
                                 | Ok s2 => dc_loop6 s2 evs (match k with EvStart => d :: stack | _ => stack end)
                                 | ValueError => None
                                 end
                   end) by (destruct k; try reflexivity; contradiction).
      rewrite Hm in H. rewrite H6. clear Hm H6.
      destruct stack as [|top st']; [discriminate|].
      inversion Hst as [|? ? [Lt Tt] Hst']; subst.
      pose proof (clone1_struct fuel cs e) as CS. cbv zeta in CS.
      destruct (clone1 fuel cs e) as [cs1 dm]. cbn [fst snd] in CS.
      destruct CS as (D1 & D2 & D3 & D4 & D5 & D6).
      destruct Hsim as [Hn Hs].
      unfold clone6, alloc. 
      destruct (link_step s top (kind (hp s e)) (txt (hp s e)) C Lt Tt Ke)
        as (s2 & Hop & C2 & N2 & M2 & Mx & K2 & P2 & Kx & Fk & Fp).
      cbn [alloc fst] in Hop. rewrite Hop.
      rewrite Hn in D1, D2, D3. subst dm.
      assert (Htop : top <> nxt s) by (destruct Lt; lia).
      destruct (append_child_effect cs1 top (nxt s) Htop) as (B1 & B2 & B3 & B4 & B5 & B6).
      assert (Hlive2 : forall y, live s y -> live s2 y).
      { intros y Ly. destruct Ly as [Ly1 Ly2]. apply (meta_live s s2 y Ly1); [lia | now apply M2 | split; assumption]. }
      assert (Hsim2 : sim (append_child cs1 top (nxt s)) s2).
      { split; [rewrite B1, D2, N2; congruence|].
        intros i Li. destruct (Nat.eq_dec i (nxt s)) as [->|Ni].
        - rewrite B5. cbn [c_par c_kids]. rewrite D5, P2, Kx. repeat split; auto.
          unfold is_tagb. rewrite B5. cbn [c_pay]. fold (is_tagb cs1 (nxt s)). rewrite D6.
          rewrite (proj2 (proj2 (Hs e Le))). symmetry. apply is_tag_kind.
          apply (f_equal (fun m => fst (fst m))) in Mx. exact Mx.
        - assert (Li0 : live s i).
          { destruct Li as [L1 L2]. assert (i < nxt s) by lia.
            apply (meta_live s s2 i); auto; try lia. split; assumption. }
          destruct (Hs i Li0) as (S1 & S2 & S3).
          assert (Hti : is_tag (hp s2) i = is_tag (hp s) i).
          { apply is_tag_kind. destruct Li0 as [L1 _]. apply meta_kind. now apply M2. }
          destruct (Nat.eq_dec i top) as [->|Nt].
          + rewrite B6. cbn [c_par c_kids]. rewrite D3 by exact Htop. rewrite S1, S2, K2, (Fp top Li0).
            repeat split; auto. unfold is_tagb. rewrite B6. cbn [c_pay]. rewrite D3 by exact Htop.
            fold (is_tagb cs top). now rewrite S3, Hti.
          + rewrite (B4 i Nt Ni), (D3 i Ni). rewrite S1, S2, (Fk i Li0 Nt), (Fp i Li0).
            repeat split; auto. unfold is_tagb. rewrite (B4 i Nt Ni), (D3 i Ni). fold (is_tagb cs i).
            now rewrite S3, Hti. }
      assert (Hev2 : Forall (ev_ok s2) evs).
      { eapply Forall_impl; [|exact Hev']. intros [k' e'] Hok. unfold ev_ok in *. cbn [fst snd] in *.
        destruct k'; try exact I; destruct Hok as (L' & K' & T');
          (split; [now apply Hlive2|]); destruct L' as [L1' _];
          rewrite (meta_kind _ _ (M2 e' L1')); (split; [exact K'|]);
          intros E; rewrite (is_tag_kind (hp s) (hp s2) e' e' (meta_kind _ _ (M2 e' L1'))); now apply T'. }
      assert (Hstk2 : forall p, stack_ok s p -> stack_ok s2 p).
      { intros p [Lp Tp]. split; [now apply Hlive2|]. destruct Lp as [Lp1 _].
        rewrite (is_tag_kind (hp s) (hp s2) p p (meta_kind _ _ (M2 p Lp1))). exact Tp. }
      assert (Hst2 : Forall (stack_ok s2) (match k with EvStart => nxt s :: top :: st' | _ => top :: st' end)).
      { assert (Hbase : Forall (stack_ok s2) (top :: st')).
        { constructor; [apply Hstk2; split; assumption|]. eapply Forall_impl; [|exact Hst']. intros p Hp. now apply Hstk2. }
        destruct k; try exact Hbase. constructor; [|exact Hbase]. split.
        - split; [lia|]. apply (f_equal snd) in Mx. exact Mx.
        - rewrite (is_tag_kind (hp s) (hp s2) e (nxt s)); [now apply Te|].
          apply (f_equal (fun m => fst (fst m))) in Mx. exact Mx. }
      destruct (IH fuel _ s2 _ cs' C2 Hsim2 Hev2 Hst2 H) as (s' & R1 & R2 & R3 & R4 & R5).
      exists s'. split; [exact R1|]. split; [exact R2|]. split; [exact R3|]. split; [lia|].
      intros y Hy. rewrite R5 by lia. now apply M2. }
    destruct k; try (apply Hgen; discriminate). now apply Hend.
Qed.

(* every event of the bracket sequence names an element of the tree; START only for tags *)
Lemma brackets_facts cs : forall t ev, In ev (brackets cs t) ->
  In (snd ev) (pre t) /\ (fst ev = EvStart -> is_tagb cs (snd ev) = true).
Proof.
  induction t as [x ks IH] using tree_ind'. intros ev Hev. rewrite Forall_forall in IH. cbn [brackets] in Hev.
  destruct (is_tagb cs x) eqn:Et.
  - destruct (is_empty_element cs x).
    + destruct Hev as [<-|[]]. cbn. split; [now left | discriminate].
    + destruct Hev as [<-|Hev]; [cbn; split; [now left | auto]|].
      apply in_app_or in Hev. destruct Hev as [Hev|[<-|[]]].
      * apply in_flat_map in Hev. destruct Hev as (k & Hk & Hev). destruct (IH k Hk ev Hev) as [A B].
        split; [|exact B]. cbn. right. eapply in_pres; eauto.
      * cbn. split; [now left | discriminate].
  - destruct Hev as [<-|[]]. cbn. split; [now left | discriminate].
Qed.

(* a tree whose child lists the six-link heap shows is the tree the two-store state represents *)
Lemma rep_tree_unique cs h : forall T t',
  (forall u, In u (subterms T) -> kids (h (rid u)) = map rid (tkids u)) ->
  (forall x, In x (pre T) -> c_kids (nh cs x) = kids (h x)) ->
  rid T = rid t' -> reps cs t' -> T = t'.
Proof.
  induction T as [y js IH] using tree_ind'. intros [x ks] Hsub Hk E Hr. cbn [rid] in E. subst y.
  apply reps_unfold in Hr. destruct Hr as (K1 & _ & A1). apply all_kids_Forall in A1.
  assert (K2 : map rid js = map rid ks).
  { rewrite <- K1, (Hk x) by (cbn; now left). symmetry. apply (Hsub (Node x js)). cbn. now left. }
  f_equal.
  assert (Hsub' : forall j, In j js -> forall u, In u (subterms j) -> kids (h (rid u)) = map rid (tkids u)).
  { intros j Hj u Hu. apply Hsub. cbn [subterms]. right. apply in_flat_map. eauto. }
  assert (Hk' : forall j, In j js -> forall z, In z (pre j) -> c_kids (nh cs z) = kids (h z)).
  { intros j Hj z Hz. apply Hk. cbn. right. eapply in_pres; eauto. }
  clear Hsub Hk K1. revert ks K2 A1.
  induction IH as [|j js Hj _ IHj]; intros ks K2 A1; destruct ks as [|k ks]; try discriminate; [reflexivity|].
  cbn [map] in K2. inversion K2. inversion A1 as [|? ? [_ Rk] A1']; subst. f_equal.
  - apply Hj; auto.
    + apply Hsub'. now left.
    + apply Hk'. now left.
  - apply IHj; auto.
    + intros j' Hj'. apply Hsub'. now right.
    + intros j' Hj'. apply Hk'. now right.
Qed.

(* The copy on the six-link heap: the same loop, with the real append(), from any consistent state
   that the two-store state mirrors, ends in a consistent state that the two-store result mirrors,
   and there the copy t' is a tree of the forest with all six links right ([rep1]). *)
Theorem copy_well_linked fuel cs t s :
  wf cs t -> closed_par cs -> (forall x, In x (pre t) -> soup_ok cs x) -> List.length (pre t) <= fuel ->
  is_tagb cs (rid t) = true ->
  consistent s -> sim cs s -> (forall x, In x (pre t) -> live s x) ->
  (forall x, In x (pres (tkids t)) -> kind (hp s x) <> KSoup) ->
  exists cs' t' s',
    deepcopy fuel cs (rid t) = Some (cs', rid t') /\ copy_post fuel cs t cs' t' /\
    deepcopy6 s (es_loop cs (descendants fuel cs (rid t)) []) (rid t) = Some (s', rid t') /\
    consistent s' /\ sim cs' s' /\
    exists b, rep1 (hp s') t' b /\ (kind (hp s (rid t)) <> KSoup -> b = true).
Proof.
  intros Hwf Hc Hs Hf Htag C Hsim Hlive Hns.
  destruct (deepcopy_correct cs t fuel Hwf Hc Hs Hf) as (cs' & t' & Hdc & Hpost).
  exists cs', t'.
  pose proof Hwf as (Hr & Hnd & _).
  pose proof (event_stream_brackets cs t fuel Hr Hnd Hf) as Hevs.
  pose proof Hdc as Hdc0. unfold deepcopy in Hdc. unfold is_tagb in Htag.
  destruct (c_pay (nh cs (rid t))) as [a|] eqn:Ep; [|discriminate].
  rewrite <- (clone1_tag fuel cs (rid t) a Ep) in Hdc.
  pose proof (clone1_struct fuel cs (rid t)) as CS. cbv zeta in CS.
  destruct (clone1 fuel cs (rid t)) as [cs1 d]. cbn [fst snd] in CS.
  destruct CS as (D1 & D2 & D3 & D4 & D5 & D6).
  destruct (dc_loop fuel cs1 (es_loop cs (descendants fuel cs (rid t)) []) [d]) as [cs2|] eqn:Eloop; [|discriminate].
  inversion Hdc; subst cs2. assert (Hd : rid t' = d) by congruence. clear Hdc.
  destruct Hsim as [Hn Hsi]. rewrite Hn in D1, D2, D3. subst d.
  assert (Lx : live s (rid t)) by (apply Hlive, rid_in_pre).
  (* the clone of the root on the six-link side *)
  set (k0 := kind (hp s (rid t))). set (t0 := txt (hp s (rid t))).
  set (s1 := fst (alloc s k0 t0)).
  assert (C1 : consistent s1) by (apply alloc_consistent; exact C).
  assert (Hold : forall y, y <> nxt s -> hp s1 y = hp s y).
  { intros y Hy. unfold s1, alloc. cbn [fst hp]. now apply upd_other. }
  assert (Hnew : hp s1 (nxt s) = blank k0 t0) by (unfold s1, alloc; cbn [fst hp]; apply upd_same).
  assert (N1 : nxt s1 = S (nxt s)) by reflexivity.
  assert (Hl1 : forall y, live s y -> live s1 y).
  { intros y [A B]. split; [rewrite N1; lia|]. rewrite Hold by lia. exact B. }
  assert (Hsim1 : sim cs1 s1).
  { split; [rewrite D2, N1; reflexivity|]. intros i Li. destruct (Nat.eq_dec i (nxt s)) as [->|Ni].
    - rewrite D4, D5, Hnew. cbn [blank par kids]. repeat split; auto.
      rewrite D6. rewrite (proj2 (proj2 (Hsi _ Lx))). symmetry. apply is_tag_kind. rewrite Hnew. reflexivity.
    - assert (Li0 : live s i).
      { destruct Li as [A B]. rewrite N1 in A. split; [lia|]. now rewrite <- (Hold i Ni). }
      destruct (Hsi i Li0) as (S1 & S2 & S3). rewrite (D3 i Ni). unfold is_tagb. rewrite (D3 i Ni).
      fold (is_tagb cs i). rewrite S1, S2, S3. rewrite (Hold i Ni). repeat split; auto.
      apply is_tag_kind. now rewrite (Hold i Ni). }
  assert (Hev1 : Forall (ev_ok s1) (es_loop cs (descendants fuel cs (rid t)) [])).
  { rewrite Hevs. apply Forall_forall. intros [k e] Hin. apply in_flat_map in Hin.
    destruct Hin as (kt & Hkt & Hin). destruct (brackets_facts cs kt _ Hin) as [A B]. cbn [fst snd] in A, B.
    assert (He : In e (pres (tkids t))) by (eapply in_pres; eauto).
    assert (Le : live s e).
    { apply Hlive. destruct t as [x ks]. cbn. right. exact He. }
    assert (Ne : e <> nxt s) by (destruct Le; lia).
    unfold ev_ok. cbn [fst snd]. destruct k; try exact I;
      (split; [now apply Hl1|]); rewrite (Hold e Ne); (split; [now apply Hns|]); intros E;
      try discriminate.
    rewrite (is_tag_kind (hp s) (hp s1) e e) by (now rewrite (Hold e Ne)).
    rewrite <- (proj2 (proj2 (Hsi e Le))). now apply B. }
  assert (Hst1 : Forall (stack_ok s1) [nxt s]).
  { constructor; [|constructor]. split.
    - split; [rewrite N1; lia|]. now rewrite Hnew.
    - rewrite (is_tag_kind (hp s) (hp s1) (rid t) (nxt s)) by (now rewrite Hnew).
      rewrite <- (proj2 (proj2 (Hsi _ Lx))). unfold is_tagb. now rewrite Ep. }
  destruct (dc_sim _ fuel cs1 s1 [nxt s] cs' C1 Hsim1 Hev1 Hst1 Eloop) as (s' & R1 & R2 & R3 & R4 & R5).
  exists s'. split; [exact Hdc0|]. split; [exact Hpost|]. split.
  { unfold deepcopy6, clone6. fold k0 t0. unfold alloc. cbn [fst snd]. unfold s1, alloc in R1. cbn [fst] in R1.
    rewrite R1. now rewrite Hd. }
  split; [exact R2|]. split; [exact R3|].
  (* the clone is a live parentless element of the consistent result: the root of a tree of its forest *)
  assert (Ld' : live s' (rid t')).
  { rewrite Hd. split; [rewrite N1 in R4; lia|].
    rewrite (meta_dead _ _ (R5 (nxt s) ltac:(rewrite N1; lia))). now rewrite Hnew. }
  pose proof Hpost as (P1 & _ & P3 & _).
  assert (Pnone : par (hp s' (rid t')) = None).
  { destruct R3 as [_ R3]. rewrite <- (proj1 (R3 _ Ld')). exact P3. }
  destruct (live_root_fragment s' (rid t') R2 Ld' Pnone) as (F & T & b & CW & HinF & HT & R1').
  assert (ET : T = t').
  { apply (rep_tree_unique cs' (hp s')); auto.
    - intros u Hu. destruct R1' as (Hok & _). destruct (Hok u Hu) as (K & _). exact K.
    - intros x Hx. destruct R3 as [_ R3]. apply R3. apply (cons_live F s' x CW).
      unfold fids. apply in_flat_map. exists (T, b). split; [exact HinF | exact Hx]. }
  subst T. exists b. split; [exact R1'|].
  intros Hk. destruct b; [reflexivity|]. exfalso.
  destruct CW as (_ & _ & _ & _ & Hsoup). specialize (Hsoup t' HinF).
  rewrite Hd in Hsoup. rewrite (meta_kind _ _ (R5 (nxt s) ltac:(rewrite N1; lia))) in Hsoup.
  rewrite Hnew in Hsoup. cbn in Hsoup. contradiction.
Qed.
