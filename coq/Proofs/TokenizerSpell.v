(* C04 / C05 — the spelling of tags in the rendering (Model/Reparse.v [spell], what decode() writes) is the spelling of
   Spec/DocWrite.v, so rendered start, empty-element and end tags are tokens the tokenizer model consumes one at a time. *)
From Coq Require Import List NArith Bool.
From BS Require Import Base.Sexp Base.Types Model.Render Model.Reparse Model.Tokenizer Spec.DocWrite Proofs.TokenizerBridge.
Import ListNotations.
Open Scope N_scope.

Lemma spell_attr_src kv : quoted_attr kv = true -> spell_attr kv = fst kv ++ val_src (snd kv).
Proof.
  destruct kv as [k [x|]]; unfold quoted_attr, spell_attr, val_src, quote_of; cbn [fst snd]; intros H.
  - unfold dq_, sq_. destruct (memN 34 x); reflexivity.
  - now rewrite app_nil_r.
Qed.
Lemma join_spell_asrc a : quoted_attrs a = true -> join_with_sp (map spell_attr a) = asrc a.
Proof.
  induction a as [|kv a IH]; [reflexivity|]. cbn [quoted_attrs forallb map]. intros H. apply andb_prop in H as [H1 H2].
  destruct a as [|y r].
  - cbn [map join_with_sp asrc]. now apply spell_attr_src.
  - change (join_with_sp (spell_attr kv :: map spell_attr (y :: r)))
      with (spell_attr kv ++ sp_ :: join_with_sp (map spell_attr (y :: r))).
    rewrite (IH H2), (spell_attr_src kv H1). change (asrc (kv :: y :: r)) with (attr_src kv ++ asrc (y :: r)).
    unfold attr_src, sp_. rewrite <- !app_assoc. reflexivity.
Qed.
Theorem spell_is_written n a : quoted_attrs a = true ->
  spell (TOpen n a) = w_start n a /\ spell (TEmptyTag n a [47]) = w_self n a /\ spell (TClose n) = w_end n.
Proof.
  intros Ha. unfold spell, spell_attrs, w_start, w_self, w_end, attrs_src.
  destruct a as [|kv r]; [repeat split; reflexivity|].
  rewrite <- (join_spell_asrc (kv :: r) Ha). cbn [map]. repeat split; reflexivity.
Qed.

(* rendered tags with lower-case names (not script / style) whose attribute values came out double-quoted *)
Theorem rendered_tag_tokens unesc n a : name_ok n -> quoted_attrs a = true ->
  tok_ok unesc (WCons (spell (TOpen n a)) [TStart n (unesc_attrs unesc a)]) /\
  tok_ok unesc (WCons (spell (TEmptyTag n a [47])) [TStartEnd n (unesc_attrs unesc a)]) /\
  tok_ok unesc (WCons (spell (TClose n)) [TEnd n]).
Proof.
  intros Hn Ha. destruct (spell_is_written n a Ha) as (E1 & E2 & E3). rewrite E1, E2, E3.
  split; [exact (tok_ok_start_gen unesc n a Hn Ha)|].
  split; [exact (tok_ok_self_gen unesc n a Hn Ha)|exact (tok_ok_end unesc n Hn)].
Qed.
