(* C07 — proofs about Model/Dammit.v against Spec/DammitSpec.v. *)
From Coq Require Import List NArith Bool Arith Lia.
From BS Require Import Base.Sexp Base.Types Gen.T_C07 Model.Dammit Spec.DammitSpec.
Import ListNotations.
Open Scope N_scope.

(* ------------------------------------------------------------------ small facts *)
Lemma str_eqb_refl s : str_eqb s s = true.
Proof. now apply str_eqb_eq. Qed.

Lemma str_eqb_neq a b : str_eqb a b = false <-> a <> b.
Proof.
  split.
  - intros H E. apply str_eqb_eq in E. congruence.
  - intros H. destruct (str_eqb a b) eqn:E; [apply str_eqb_eq in E; contradiction | reflexivity].
Qed.

Lemma memS_cons k a l : memS k (a :: l) = str_eqb k a || memS k l.
Proof. reflexivity. Qed.

Lemma memS_In k l : memS k l = true <-> In k l.
Proof.
  unfold memS. rewrite existsb_exists. split.
  - intros [x [Hin E]]. apply str_eqb_eq in E. now subst.
  - intros H. exists k. split; [assumption | apply str_eqb_refl].
Qed.

Lemma memS_not_In k l : memS k l = false <-> ~ In k l.
Proof.
  split.
  - intros H Hin. apply memS_In in Hin. congruence.
  - intros H. destruct (memS k l) eqn:E; [apply memS_In in E; contradiction | reflexivity].
Qed.

(* ------------------------------------------------------------------ tables as documented *)
Lemma bom_rules_documented :
  bom_rules =
  [ (4%nat, (2%nat, [254; 255]), Some (2%nat, 4%nat, [0; 0]), n_utf16be, 2%nat);
    (4%nat, (2%nat, [255; 254]), Some (2%nat, 4%nat, [0; 0]), n_utf16le, 2%nat);
    (0%nat, (3%nat, [239; 187; 191]), None, n_utf8, 3%nat);
    (0%nat, (4%nat, [0; 0; 254; 255]), None, n_utf32be, 4%nat);
    (0%nat, (4%nat, [255; 254; 0; 0]), None, n_utf32le, 4%nat) ].
Proof. reflexivity. Qed.

Lemma stage_order_documented : encodings_stage_order = [0; 1; 2; 3; 4; 5].
Proof. reflexivity. Qed.

Lemma last_ditch_documented : last_ditch_encodings = [n_utf8; n_windows1252].
Proof. reflexivity. Qed.

Lemma replace_skip_documented : replace_pass_skips = n_ascii.
Proof. reflexivity. Qed.

Lemma charset_aliases_wellformed :
  forallb (fun kv => negb (is_empty (fst kv)) && negb (is_empty (snd kv))) charset_aliases = true /\
  forallb (fun kv => snd kv) charset_alias_target_known = true /\
  map snd charset_aliases = map fst charset_alias_target_known.
Proof. repeat split; reflexivity. Qed.

(* ------------------------------------------------------------------ byte-order marks *)
Ltac split_eqb :=
  repeat match goal with
         | |- context [N.eqb ?x ?y] => destruct (N.eqb_spec x y); subst; cbn
         end.

Lemma strip_bom_marked d r n : marked d r n -> strip_bom d = (r, Some n).
Proof.
  intros H. unfold strip_bom. rewrite bom_rules_documented.
  destruct H as [rest Hl Hn | rest Hl Hn | rest | rest | rest].
  - destruct rest as [|x [|y rest]]; cbn in Hl; try lia.
    cbn. cbn in Hn. split_eqb; try reflexivity. exfalso. apply Hn. reflexivity.
  - destruct rest as [|x [|y rest]]; cbn in Hl; try lia.
    cbn. cbn in Hn. split_eqb; try reflexivity. exfalso. apply Hn. reflexivity.
  - destruct rest as [|x [|y rest]]; reflexivity.
  - reflexivity.
  - reflexivity.
Qed.

Lemma strip_bom_total d : bom_spec d (fst (strip_bom d)) (snd (strip_bom d)).
Proof.
  unfold strip_bom. rewrite bom_rules_documented.
  destruct d as [|a [|b [|c [|e rest]]]]; cbn; split_eqb;
    try (split; [reflexivity | intros ? ? HM; inversion HM; subst; cbn in *; try lia; congruence]);
    try (constructor; cbn; try lia; congruence).
Qed.

Lemma strip_bom_unmarked d : (forall r n, ~ marked d r n) -> strip_bom d = (d, None).
Proof.
  intros H. pose proof (strip_bom_total d) as T.
  destruct (strip_bom d) as [d' [n|]]; cbn in T.
  - exfalso. eapply H. exact T.
  - destruct T as [-> _]. reflexivity.
Qed.

(* what was stripped is exactly the mark: the data is the mark followed by the result *)
Lemma marked_prefix d r n : marked d r n ->
  exists mark, d = mark ++ r /\
    In (mark, n) [([254; 255], n_utf16be); ([255; 254], n_utf16le); ([239; 187; 191], n_utf8);
                  ([0; 0; 254; 255], n_utf32be); ([255; 254; 0; 0], n_utf32le)].
Proof.
  intros H. destruct H.
  - exists [254; 255]. split; [reflexivity | cbn; tauto].
  - exists [255; 254]. split; [reflexivity | cbn; tauto].
  - exists [239; 187; 191]. split; [reflexivity | cbn; tauto].
  - exists [0; 0; 254; 255]. split; [reflexivity | cbn; tauto].
  - exists [255; 254; 0; 0]. split; [reflexivity | cbn; tauto].
Qed.

(* ------------------------------------------------------------------ sub-lists *)
Lemma subseq_refl {X} (l : list X) : subseq l l.
Proof. induction l; constructor; assumption. Qed.

Lemma subseq_trans {X} (l1 l2 l3 : list X) : subseq l1 l2 -> subseq l2 l3 -> subseq l1 l3.
Proof.
  intros H12 H23. revert l1 H12.
  induction H23; intros l0 H12.
  - inversion H12. constructor.
  - constructor. auto.
  - inversion H12; subst.
    + apply SS_skip. auto.
    + apply SS_keep. auto.
Qed.

Lemma subseq_filter {X} (f : X -> bool) l : subseq (filter f l) l.
Proof. induction l as [|x l IH]; cbn; [constructor|]. destruct (f x); constructor; assumption. Qed.

Lemma subseq_In {X} (l1 l2 : list X) x : subseq l1 l2 -> In x l1 -> In x l2.
Proof. induction 1; cbn; intros; tauto || (destruct H0; [subst; tauto | right; tauto]). Qed.

(* ------------------------------------------------------------------ candidates *)
Section CandidateProofs.
  Variable lower : str -> str.

  Lemma gen_dedup excl tried l :
    gen lower (map lower excl) tried l =
    dedup_by lower tried (filter (fun e => negb (excluded lower excl e)) l).
  Proof.
    revert tried. induction l as [|e l IH]; intros tried; cbn; [reflexivity|].
    unfold usable, excluded.
    destruct (memS (lower e) (map lower excl)) eqn:Ex; cbn.
    - apply IH.
    - destruct (memS (lower e) tried) eqn:Tr; cbn; rewrite IH; reflexivity.
  Qed.

  Lemma offered_documented kn us sn de gu :
    offered kn us sn de gu = documented_order kn sn us de gu.
  Proof.
    unfold offered, documented_order. rewrite stage_order_documented.
    cbn [flat_map stage_items]. rewrite last_ditch_documented. rewrite app_nil_r. reflexivity.
  Qed.

  (* EncodingDetector.encodings = the documented order, minus excluded, each once *)
  Lemma encodings_spec sniff chardet m a :
    encodings lower sniff chardet m a =
    spec_candidates lower (a_exclude a)
      (documented_order (a_known a ++ a_override a) (det_sniffed m) (a_user a)
                        (det_declared sniff m a) (chardet (det_markup m))).
  Proof.
    unfold encodings, spec_candidates, det_exclude, det_known.
    rewrite gen_dedup. rewrite offered_documented. reflexivity.
  Qed.

  (* ---- what "each tried once, minus excluded, in order" means ---- *)
  Lemma dedup_In seen l y :
    In y (dedup_by lower seen l) -> memS (lower y) seen = false /\ In y l.
  Proof.
    revert seen. induction l as [|x l IH]; intros seen; cbn; [tauto|].
    destruct (memS (lower x) seen) eqn:E.
    - intros H. apply IH in H. tauto.
    - cbn. intros [-> | H]; [tauto|].
      apply IH in H. destruct H as [H1 H2]. rewrite memS_cons in H1.
      apply orb_false_iff in H1. tauto.
  Qed.

  Lemma dedup_subseq seen l : subseq (dedup_by lower seen l) l.
  Proof.
    revert seen. induction l as [|x l IH]; intros seen; cbn; [constructor|].
    destruct (memS (lower x) seen); constructor; apply IH.
  Qed.

  Lemma dedup_nodup seen l : NoDup (map lower (dedup_by lower seen l)).
  Proof.
    revert seen. induction l as [|x l IH]; intros seen; cbn; [constructor|].
    destruct (memS (lower x) seen) eqn:E; [apply IH|].
    cbn. constructor; [|apply IH].
    intros Hin. apply in_map_iff in Hin. destruct Hin as [y [Hk Hy]].
    apply dedup_In in Hy. destruct Hy as [Hy _].
    rewrite memS_cons, Hk, str_eqb_refl in Hy. discriminate.
  Qed.

  (* every non-excluded offered name is represented by a candidate with the same key *)
  Lemma dedup_represented seen l x :
    In x l -> memS (lower x) seen = false ->
    exists c, In c (dedup_by lower seen l) /\ lower c = lower x.
  Proof.
    revert seen. induction l as [|a l IH]; intros seen Hin Hs; [contradiction|].
    cbn. destruct (memS (lower a) seen) eqn:E.
    - destruct Hin as [-> | Hin]; [congruence|]. apply IH; assumption.
    - destruct (str_eqb (lower x) (lower a)) eqn:K.
      + apply str_eqb_eq in K. exists a. split; [left; reflexivity | congruence].
      + destruct Hin as [-> | Hin]; [rewrite str_eqb_refl in K; discriminate|].
        destruct (IH (lower a :: seen) Hin) as [c [Hc Hk]].
        * rewrite memS_cons, K, Hs. reflexivity.
        * exists c. split; [right; assumption | assumption].
  Qed.

  (* the first occurrence of a key is the candidate itself, and what precedes it among the
     candidates comes from what precedes it in the order *)
  Lemma dedup_first seen l1 x l2 :
    memS (lower x) seen = false -> (forall y, In y l1 -> lower y <> lower x) ->
    exists c1 c2, dedup_by lower seen (l1 ++ x :: l2) = c1 ++ x :: c2 /\ (forall y, In y c1 -> In y l1).
  Proof.
    revert seen. induction l1 as [|a l1 IH]; intros seen Hs Hk; cbn.
    - rewrite Hs. exists [], (dedup_by lower (lower x :: seen) l2). split; [reflexivity | contradiction].
    - destruct (memS (lower a) seen) eqn:E.
      + destruct (IH seen Hs) as [c1 [c2 [E1 E2]]]; [intros y Hy; apply Hk; right; assumption|].
        exists c1, c2. split; [assumption | intros y Hy; right; auto].
      + destruct (IH (lower a :: seen)) as [c1 [c2 [E1 E2]]].
        * rewrite memS_cons, Hs, orb_false_r. apply str_eqb_neq. intros Heq.
          apply (Hk a); [left; reflexivity | congruence].
        * intros y Hy; apply Hk; right; assumption.
        * exists (a :: c1), c2. split; [cbn; rewrite E1; reflexivity|].
          intros y [-> | Hy]; [left; reflexivity | right; auto].
  Qed.

  Lemma filter_app_cons {X} (f : X -> bool) l1 x l2 :
    f x = true -> filter f (l1 ++ x :: l2) = filter f l1 ++ x :: filter f l2.
  Proof. intros H. rewrite filter_app. cbn. rewrite H. reflexivity. Qed.

  Lemma candidates_subseq excl order : subseq (spec_candidates lower excl order) order.
  Proof.
    unfold spec_candidates. eapply subseq_trans; [apply dedup_subseq | apply subseq_filter].
  Qed.

  Lemma candidates_once excl order : NoDup (map lower (spec_candidates lower excl order)).
  Proof. apply dedup_nodup. Qed.

  Lemma candidates_not_excluded excl order c :
    In c (spec_candidates lower excl order) -> excluded lower excl c = false /\ In c order.
  Proof.
    unfold spec_candidates. intros H. apply dedup_In in H. destruct H as [_ H].
    apply filter_In in H. destruct H as [H1 H2]. apply negb_true_iff in H2. tauto.
  Qed.

  Lemma candidates_represent excl order x :
    In x order -> excluded lower excl x = false ->
    exists c, In c (spec_candidates lower excl order) /\ lower c = lower x.
  Proof.
    intros Hin Hex. unfold spec_candidates. apply dedup_represented; [|reflexivity].
    apply filter_In. split; [assumption | rewrite Hex; reflexivity].
  Qed.

  Lemma candidates_first excl l1 x l2 :
    excluded lower excl x = false -> (forall y, In y l1 -> lower y <> lower x) ->
    exists c1 c2, spec_candidates lower excl (l1 ++ x :: l2) = c1 ++ x :: c2 /\
                  (forall y, In y c1 -> In y l1 /\ excluded lower excl y = false).
  Proof.
    intros Hex Hk. unfold spec_candidates.
    rewrite filter_app_cons by (rewrite Hex; reflexivity).
    destruct (dedup_first [] (filter (fun e => negb (excluded lower excl e)) l1) x
                          (filter (fun e => negb (excluded lower excl e)) l2)) as [c1 [c2 [E1 E2]]].
    - reflexivity.
    - intros y Hy. apply filter_In in Hy. apply Hk. tauto.
    - exists c1, c2. split; [assumption|].
      intros y Hy. apply E2 in Hy. apply filter_In in Hy. destruct Hy as [H1 H2].
      apply negb_true_iff in H2. tauto.
  Qed.
End CandidateProofs.

(* ------------------------------------------------------------------ first_some *)
Lemma first_some_none {X Y} (f : X -> option Y) l :
  first_some f l = None <-> forall x, In x l -> f x = None.
Proof.
  induction l as [|a l IH]; cbn; [tauto|].
  destruct (f a) eqn:E; split.
  - discriminate.
  - intros H. rewrite (H a) in E by tauto. discriminate.
  - intros H x [-> | Hx]; [assumption | apply IH; assumption].
  - intros H. apply IH. intros x Hx. apply H. tauto.
Qed.

Lemma first_some_app {X Y} (f : X -> option Y) l1 c l2 y :
  (forall x, In x l1 -> f x = None) -> f c = Some y -> first_some f (l1 ++ c :: l2) = Some y.
Proof.
  induction l1 as [|a l1 IH]; cbn; intros H Hc.
  - rewrite Hc. reflexivity.
  - rewrite (H a) by tauto. apply IH; [intros x Hx; apply H; tauto | assumption].
Qed.

Lemma first_some_some {X Y} (f : X -> option Y) l y :
  first_some f l = Some y ->
  exists l1 c l2, l = l1 ++ c :: l2 /\ (forall x, In x l1 -> f x = None) /\ f c = Some y.
Proof.
  induction l as [|a l IH]; cbn; [discriminate|].
  destruct (f a) eqn:E.
  - intros H. inversion H; subst. exists [], a, l. repeat split; [contradiction | assumption].
  - intros H. destruct (IH H) as [l1 [c [l2 [E1 [E2 E3]]]]].
    exists (a :: l1), c, l2. repeat split.
    + cbn. congruence.
    + intros x [-> | Hx]; [assumption | auto].
    + assumption.
Qed.

Lemma NoDup_snoc {X} (l : list X) x : NoDup l -> ~ In x l -> NoDup (l ++ [x]).
Proof.
  induction l as [|a l IH]; cbn; intros N H.
  - constructor; [tauto | constructor].
  - inversion N; subst. constructor.
    + intros Hin. apply in_app_or in Hin. destruct Hin as [Hin | [-> | []]]; [contradiction | tauto].
    + apply IH; [assumption | tauto].
Qed.

(* ------------------------------------------------------------------ the two passes *)
Section DammitProofs.
  Variable lower : str -> str.
  Variable known : str -> bool.
  Variable decode : str -> str -> dmode -> option str.
  Variable sniff : markup -> bool -> option str.
  Variable chardet : markup -> option str.

  Notation find_codec := (find_codec lower known).
  Notation convert_from := (convert_from lower known decode).
  Notation strict_loop := (strict_loop lower known decode).
  Notation replace_loop := (replace_loop lower known decode).
  Notation attempt := (attempt find_codec decode).
  Notation dammit := (dammit lower known decode sniff chardet).
  Notation encodings := (encodings lower sniff chardet).

  Lemma dmode_eqb_eq a b : dmode_eqb a b = true <-> a = b.
  Proof. destruct a, b; cbn; split; congruence. Qed.

  Lemma tried_mem_In k m t : tried_mem k m t = true <-> In (k, m) t.
  Proof.
    unfold tried_mem. rewrite existsb_exists. split.
    - intros [[k' m'] [Hin E]]. cbn in E. apply andb_prop in E. destruct E as [E1 E2].
      apply str_eqb_eq in E1. apply dmode_eqb_eq in E2. subst. assumption.
    - intros H. exists (k, m). split; [assumption|]. cbn.
      rewrite str_eqb_refl. destruct m; reflexivity.
  Qed.

  (* every attempt recorded in tried_encodings under mode m failed *)
  Definition failed (bytes : str) (m : dmode) (t : list (str * dmode)) : Prop :=
    forall k, In (k, m) t -> decode bytes k m = None.

  Lemma convert_from_attempt bytes t c m :
    failed bytes m t -> fst (convert_from bytes t c m) = attempt bytes m c.
  Proof.
    intros F. unfold Dammit.convert_from, DammitSpec.attempt.
    destruct (find_codec c) as [k|]; [|reflexivity].
    destruct (tried_mem k m t) eqn:E.
    - apply tried_mem_In in E. rewrite (F k E). reflexivity.
    - destruct (decode bytes k m); reflexivity.
  Qed.

  Lemma convert_from_failed bytes t c m m' t' :
    failed bytes m' t -> convert_from bytes t c m = (None, t') -> failed bytes m' t'.
  Proof.
    intros F. unfold Dammit.convert_from.
    destruct (find_codec c) as [k|]; [|intros H; inversion H; subst; assumption].
    destruct (tried_mem k m t); [intros H; inversion H; subst; assumption|].
    destruct (decode bytes k m) eqn:D; intros H; inversion H; subst.
    intros k' Hin. apply in_app_or in Hin. destruct Hin as [Hin | [Hin | []]]; [auto|].
    inversion Hin; subst. assumption.
  Qed.

  Lemma convert_from_nodup bytes t c m r t' :
    NoDup t -> convert_from bytes t c m = (r, t') -> NoDup t'.
  Proof.
    intros N. unfold Dammit.convert_from.
    destruct (find_codec c) as [k|]; [|intros H; inversion H; subst; assumption].
    destruct (tried_mem k m t) eqn:E; [intros H; inversion H; subst; assumption|].
    assert (Hn : ~ In (k, m) t) by (intros Hin; apply tried_mem_In in Hin; congruence).
    assert (N' : NoDup (t ++ [(k, m)])).
    { apply NoDup_snoc; assumption. }
    destruct (decode bytes k m); intros H; inversion H; subst; assumption.
  Qed.

  Lemma strict_loop_spec bytes cands : forall t,
    failed bytes Strict t ->
    fst (strict_loop bytes t cands) = first_some (attempt bytes Strict) cands.
  Proof.
    induction cands as [|c cs IH]; intros t F; cbn; [reflexivity|].
    pose proof (convert_from_attempt bytes t c Strict F) as A.
    destruct (convert_from bytes t c Strict) as [[r|] t'] eqn:E; cbn [fst] in A; rewrite <- A.
    - reflexivity.
    - apply IH. eapply convert_from_failed; eassumption.
  Qed.

  Lemma strict_loop_failed bytes m' cands : forall t t',
    failed bytes m' t -> strict_loop bytes t cands = (None, t') -> failed bytes m' t'.
  Proof.
    induction cands as [|c cs IH]; intros t t' F; cbn.
    - intros H; inversion H; subst; assumption.
    - destruct (convert_from bytes t c Strict) as [[r|] t1] eqn:E; [discriminate|].
      apply IH. eapply convert_from_failed; eassumption.
  Qed.

  Lemma strict_loop_nodup bytes cands : forall t r t',
    NoDup t -> strict_loop bytes t cands = (r, t') -> NoDup t'.
  Proof.
    induction cands as [|c cs IH]; intros t r t' N; cbn.
    - intros H; inversion H; subst; assumption.
    - destruct (convert_from bytes t c Strict) as [[r1|] t1] eqn:E.
      + intros H; inversion H; subst. eapply convert_from_nodup; eassumption.
      + apply IH. eapply convert_from_nodup; eassumption.
  Qed.

  Lemma replace_loop_spec bytes cands : forall t,
    failed bytes Replace t ->
    fst (replace_loop bytes t cands) =
    first_some (attempt bytes Replace) (filter (fun c => negb (str_eqb c n_ascii)) cands).
  Proof.
    induction cands as [|c cs IH]; intros t F; cbn; [reflexivity|].
    rewrite replace_skip_documented.
    destruct (str_eqb c n_ascii); cbn; [apply IH; assumption|].
    pose proof (convert_from_attempt bytes t c Replace F) as A.
    destruct (convert_from bytes t c Replace) as [[r|] t'] eqn:E; cbn [fst] in A; rewrite <- A.
    - reflexivity.
    - apply IH. eapply convert_from_failed; eassumption.
  Qed.

  Lemma replace_loop_nodup bytes cands : forall t r t',
    NoDup t -> replace_loop bytes t cands = (r, t') -> NoDup t'.
  Proof.
    induction cands as [|c cs IH]; intros t r t' N; cbn.
    - intros H; inversion H; subst; assumption.
    - destruct (str_eqb c replace_pass_skips); [apply IH; assumption|].
      destruct (convert_from bytes t c Replace) as [[r1|] t1] eqn:E.
      + intros H; inversion H; subst. eapply convert_from_nodup; eassumption.
      + apply IH. eapply convert_from_nodup; eassumption.
  Qed.

  Definition outcome (r : dammit_result) : option str * option str * bool :=
    (r_text r, r_orig r, r_flag r).

  (* ---- the central refinement: UnicodeDammit.__init__ on non-empty bytes ---- *)
  Theorem dammit_outcome b a :
    b <> [] ->
    outcome (dammit (MBytes b) a) =
    spec_outcome find_codec decode (fst (strip_bom b)) (encodings (MBytes b) a).
  Proof.
    intros Hb. destruct b as [|x b]; [contradiction|].
    unfold outcome, Dammit.dammit, spec_outcome.
    set (bytes := fst (strip_bom (x :: b))).
    set (cands := encodings (MBytes (x :: b)) a).
    assert (F0 : failed bytes Strict []) by (intros k []).
    pose proof (strict_loop_spec bytes cands [] F0) as S.
    destruct (strict_loop bytes [] cands) as [[[u k]|] t] eqn:E; cbn [fst] in S; rewrite <- S.
    - reflexivity.
    - assert (F1 : failed bytes Replace t).
      { eapply strict_loop_failed; [|exact E]. intros k []. }
      pose proof (replace_loop_spec bytes cands t F1) as R.
      destruct (replace_loop bytes t cands) as [[[u k]|] t'] eqn:E'; cbn [fst] in R; rewrite <- R; reflexivity.
  Qed.

  (* tried_encodings never holds the same (codec, mode) twice *)
  Theorem dammit_tried_nodup m a : NoDup (r_tried (dammit m a)).
  Proof.
    destruct m as [s|[|x b]]; [cbn; constructor | cbn; constructor | ].
    unfold Dammit.dammit.
    set (bytes := fst (strip_bom (x :: b))).
    set (cands := encodings (MBytes (x :: b)) a).
    destruct (strict_loop bytes [] cands) as [[[u k]|] t] eqn:E.
    - cbn [r_tried]. eapply strict_loop_nodup; [|exact E]. constructor.
    - assert (N : NoDup t) by (eapply strict_loop_nodup; [|exact E]; constructor).
      destruct (replace_loop bytes t cands) as [[[u k]|] t'] eqn:E'; cbn [r_tried];
        eapply replace_loop_nodup; eassumption.
  Qed.
End DammitProofs.

(* ------------------------------------------------------------------ consequences *)
Section DammitCorollaries.
  Variable lower : str -> str.
  Variable known : str -> bool.
  Variable decode : str -> str -> dmode -> option str.
  Variable sniff : markup -> bool -> option str.
  Variable chardet : markup -> option str.

  Notation find_codec := (find_codec lower known).
  Notation attempt := (attempt find_codec decode).
  Notation dammit := (dammit lower known decode sniff chardet).
  Notation encodings := (encodings lower sniff chardet).
  Notation prepare_markup := (prepare_markup lower known decode sniff chardet).

  Lemma attempt_some bytes m c u k :
    attempt bytes m c = Some (u, k) <-> find_codec c = Some k /\ decode bytes k m = Some u.
  Proof.
    unfold DammitSpec.attempt. destruct (find_codec c) as [k'|].
    - destruct (decode bytes k' m) as [u'|] eqn:D; split.
      + intros H; inversion H; subst; tauto.
      + intros [H1 H2]. inversion H1; subst. congruence.
      + discriminate.
      + intros [H1 H2]. inversion H1; subst. congruence.
    - split; [discriminate | intros [H _]; discriminate].
  Qed.

  (* the first candidate that decodes strictly is used, cleanly *)
  Theorem chosen_first_decodable b a l1 c l2 u k :
    b <> [] ->
    encodings (MBytes b) a = l1 ++ c :: l2 ->
    (forall x, In x l1 -> attempt (fst (strip_bom b)) Strict x = None) ->
    attempt (fst (strip_bom b)) Strict c = Some (u, k) ->
    outcome (dammit (MBytes b) a) = (Some u, Some k, false).
  Proof.
    intros Hb Hc Hl Ha. rewrite dammit_outcome by assumption. unfold spec_outcome.
    rewrite Hc. rewrite (first_some_app _ l1 c l2 (u, k)) by assumption. reflexivity.
  Qed.

  (* conversely: a clean result comes from the first candidate that decodes strictly *)
  Theorem clean_result_inv b a u :
    b <> [] ->
    r_text (dammit (MBytes b) a) = Some u -> r_flag (dammit (MBytes b) a) = false ->
    exists l1 c l2 k,
      encodings (MBytes b) a = l1 ++ c :: l2 /\
      (forall x, In x l1 -> attempt (fst (strip_bom b)) Strict x = None) /\
      find_codec c = Some k /\ decode (fst (strip_bom b)) k Strict = Some u /\
      r_orig (dammit (MBytes b) a) = Some k.
  Proof.
    intros Hb Ht Hf. pose proof (dammit_outcome lower known decode sniff chardet b a Hb) as O.
    remember (dammit (MBytes b) a) as r eqn:Hr. clear Hr.
    unfold outcome in O. rewrite Ht, Hf in O. unfold spec_outcome in O.
    destruct (first_some (attempt (fst (strip_bom b)) Strict) (encodings (MBytes b) a)) as [[u' k]|] eqn:E.
    - inversion O; subst. apply first_some_some in E.
      destruct E as [l1 [c [l2 [E1 [E2 E3]]]]]. apply attempt_some in E3.
      exists l1, c, l2, k. tauto.
    - destruct (first_some (attempt (fst (strip_bom b)) Replace) _) as [[u' k]|]; inversion O.
  Qed.

  (* contains_replacement_characters *)
  Theorem replacement_flag_iff b a :
    b <> [] ->
    (r_flag (dammit (MBytes b) a) = true <->
     (forall c, In c (encodings (MBytes b) a) -> attempt (fst (strip_bom b)) Strict c = None) /\
     (exists c, In c (encodings (MBytes b) a) /\ c <> n_ascii /\
                attempt (fst (strip_bom b)) Replace c <> None)).
  Proof.
    intros Hb. pose proof (dammit_outcome lower known decode sniff chardet b a Hb) as O.
    unfold outcome, spec_outcome in O.
    remember (dammit (MBytes b) a) as r eqn:Hr. clear Hr.
    set (bytes := fst (strip_bom b)) in *. set (cands := encodings (MBytes b) a) in *.
    destruct (first_some (attempt bytes Strict) cands) as [[u k]|] eqn:E.
    - injection O as O1 O2 O3. rewrite O3. split; [discriminate|].
      intros [H _]. apply first_some_none in H. congruence.
    - pose proof E as E0. rewrite first_some_none in E0.
      destruct (first_some (attempt bytes Replace) (filter (fun c => negb (str_eqb c n_ascii)) cands))
        as [[u k]|] eqn:R; injection O as O1 O2 O3; rewrite O3.
      + split; [|reflexivity]. intros _. split; [assumption|].
        apply first_some_some in R. destruct R as [l1 [c [l2 [R1 [_ R3]]]]].
        assert (Hin : In c (filter (fun c => negb (str_eqb c n_ascii)) cands))
          by (rewrite R1; apply in_or_app; right; left; reflexivity).
        apply filter_In in Hin. destruct Hin as [Hin Hna].
        apply negb_true_iff, str_eqb_neq in Hna.
        exists c. repeat split; [assumption | assumption | congruence].
      + split; [discriminate|]. intros [_ [c [Hin [Hna Hat]]]]. exfalso. apply Hat.
        rewrite first_some_none in R. apply R. apply filter_In. split; [assumption|].
        apply negb_true_iff, str_eqb_neq. assumption.
  Qed.

  (* the text is exactly the decoding of the bytes with the byte-order mark removed, under the
     codec named by original_encoding: strictly when the flag is off, with replacement when on *)
  Theorem text_is_decoding b a u :
    b <> [] -> r_text (dammit (MBytes b) a) = Some u ->
    exists k, r_orig (dammit (MBytes b) a) = Some k /\
      decode (fst (strip_bom b)) k (if r_flag (dammit (MBytes b) a) then Replace else Strict) = Some u.
  Proof.
    intros Hb Ht. pose proof (dammit_outcome lower known decode sniff chardet b a Hb) as O.
    unfold outcome in O. unfold spec_outcome in O.
    remember (dammit (MBytes b) a) as r eqn:Hr. clear Hr.
    destruct (first_some (attempt (fst (strip_bom b)) Strict) (encodings (MBytes b) a)) as [[u' k]|] eqn:E.
    - injection O as O1 O2 O3. rewrite Ht in O1. inversion O1; subst.
      apply first_some_some in E. destruct E as [? [c [? [_ [_ E3]]]]]. apply attempt_some in E3.
      exists k. rewrite O3. tauto.
    - destruct (first_some (attempt (fst (strip_bom b)) Replace) _) as [[u' k]|] eqn:R;
        injection O as O1 O2 O3; rewrite Ht in O1; [|discriminate].
      inversion O1; subst.
      apply first_some_some in R. destruct R as [? [c [? [_ [_ R3]]]]]. apply attempt_some in R3.
      exists k. rewrite O3. tauto.
  Qed.

  (* nothing decodes, even with replacement: no text, no encoding *)
  Theorem no_text_iff b a :
    b <> [] ->
    (r_text (dammit (MBytes b) a) = None <->
     (forall c, In c (encodings (MBytes b) a) -> attempt (fst (strip_bom b)) Strict c = None) /\
     (forall c, In c (encodings (MBytes b) a) -> c <> n_ascii -> attempt (fst (strip_bom b)) Replace c = None)).
  Proof.
    intros Hb. pose proof (dammit_outcome lower known decode sniff chardet b a Hb) as O.
    unfold outcome, spec_outcome in O.
    remember (dammit (MBytes b) a) as r eqn:Hr. clear Hr.
    set (bytes := fst (strip_bom b)) in *. set (cands := encodings (MBytes b) a) in *.
    destruct (first_some (attempt bytes Strict) cands) as [[u k]|] eqn:E.
    - injection O as O1 O2 O3. rewrite O1. split; [discriminate|].
      intros [H _]. apply first_some_none in H. congruence.
    - pose proof E as E0. rewrite first_some_none in E0.
      destruct (first_some (attempt bytes Replace) (filter (fun c => negb (str_eqb c n_ascii)) cands))
        as [[u k]|] eqn:R; injection O as O1 O2 O3; rewrite O1.
      + split; [discriminate|]. intros [_ H]. exfalso.
        apply first_some_some in R. destruct R as [l1 [c [l2 [R1 [_ R3]]]]].
        assert (Hin : In c (filter (fun c => negb (str_eqb c n_ascii)) cands))
          by (rewrite R1; apply in_or_app; right; left; reflexivity).
        apply filter_In in Hin. destruct Hin as [Hin Hna].
        apply negb_true_iff, str_eqb_neq in Hna. rewrite (H c Hin Hna) in R3. discriminate.
      + split; [|reflexivity]. intros _. split; [assumption|].
        intros c Hin Hna. rewrite first_some_none in R. apply R. apply filter_In.
        split; [assumption | apply negb_true_iff, str_eqb_neq; assumption].
  Qed.

  (* precedence, stated over the documented order itself: the first source entry (not excluded,
     first of its name) under which the bytes decode wins, cleanly *)
  Theorem precedence_documented_order b a l1 x l2 u k :
    b <> [] ->
    documented_order (a_known a ++ a_override a) (snd (strip_bom b)) (a_user a)
                     (sniff (MBytes (fst (strip_bom b))) (a_is_html a))
                     (chardet (MBytes (fst (strip_bom b)))) = l1 ++ x :: l2 ->
    excluded lower (a_exclude a) x = false ->
    (forall y, In y l1 -> lower y <> lower x) ->
    (forall y, In y l1 -> excluded lower (a_exclude a) y = false ->
               attempt (fst (strip_bom b)) Strict y = None) ->
    attempt (fst (strip_bom b)) Strict x = Some (u, k) ->
    outcome (dammit (MBytes b) a) = (Some u, Some k, false).
  Proof.
    intros Hb Ho Hex Hk Hf Hx.
    destruct (candidates_first lower (a_exclude a) l1 x l2 Hex Hk) as [c1 [c2 [E1 E2]]].
    eapply (chosen_first_decodable b a c1 x c2); try assumption.
    - rewrite encodings_spec. unfold det_sniffed, det_declared, det_markup, strip_byte_order_mark.
      cbn [fst snd]. rewrite Ho. exact E1.
    - intros y Hy. apply E2 in Hy. destruct Hy as [H1 H2]. auto.
  Qed.

  (* valid UTF-8 with no contrary indication is decoded as UTF-8 *)
  Theorem utf8_default b a u k :
    b <> [] ->
    a_known a = [] -> a_override a = [] -> a_user a = [] ->
    chardet (MBytes (fst (strip_bom b))) = None ->
    (snd (strip_bom b) = None \/ snd (strip_bom b) = Some n_utf8) ->
    (sniff (MBytes (fst (strip_bom b))) (a_is_html a) = None \/
     sniff (MBytes (fst (strip_bom b))) (a_is_html a) = Some n_utf8) ->
    excluded lower (a_exclude a) n_utf8 = false ->
    find_codec n_utf8 = Some k -> decode (fst (strip_bom b)) k Strict = Some u ->
    outcome (dammit (MBytes b) a) = (Some u, Some k, false).
  Proof.
    intros Hb Hk Ho Hu Hc Hs Hd Hex Hf Hdec.
    assert (Hat : attempt (fst (strip_bom b)) Strict n_utf8 = Some (u, k)) by (apply attempt_some; tauto).
    assert (exists l2,
      documented_order (a_known a ++ a_override a) (snd (strip_bom b)) (a_user a)
                       (sniff (MBytes (fst (strip_bom b))) (a_is_html a))
                       (chardet (MBytes (fst (strip_bom b)))) = [] ++ n_utf8 :: l2) as [l2 Hl2].
    { unfold documented_order. rewrite Hk, Ho, Hu, Hc.
      destruct Hs as [-> | ->]; destruct Hd as [-> | ->]; cbn; eexists; reflexivity. }
    eapply (precedence_documented_order b a [] n_utf8 l2); try eassumption; intros y [].
  Qed.

  (* str input is passed through untouched *)
  Theorem str_passthrough s a :
    outcome (dammit (MStr s) a) = (Some s, None, false) /\
    r_markup (dammit (MStr s) a) = MStr s /\ r_tried (dammit (MStr s) a) = [].
  Proof. repeat split. Qed.

  Theorem empty_bytes a :
    outcome (dammit (MBytes []) a) = (Some [], None, false) /\ r_tried (dammit (MBytes []) a) = [].
  Proof. repeat split. Qed.

  (* declared_html_encoding reports what the (BOM-stripped) document declares, whatever else
     happened; None when the markup is not HTML *)
  Theorem declared_reported m a :
    r_declared_html (dammit m a) =
    if a_is_html a then sniff (fst (strip_byte_order_mark m)) true else None.
  Proof.
    assert (H : declared_html sniff m a =
                if a_is_html a then sniff (fst (strip_byte_order_mark m)) true else None).
    { unfold declared_html, det_declared, det_markup. destruct (a_is_html a); reflexivity. }
    destruct m as [s|[|x b]]; [exact H | exact H |].
    unfold Dammit.dammit.
    destruct (strict_loop _ _ _ _ _ _) as [[[u k]|] t]; [exact H|].
    destruct (replace_loop _ _ _ _ _ _) as [[[u k]|] t']; exact H.
  Qed.

  (* .markup is the input without its byte-order mark *)
  Theorem markup_is_stripped b a : b <> [] -> r_markup (dammit (MBytes b) a) = MBytes (fst (strip_bom b)).
  Proof.
    intros Hb. destruct b as [|x b]; [contradiction|]. unfold Dammit.dammit.
    destruct (strict_loop _ _ _ _ _ _) as [[[u k]|] t]; [reflexivity|].
    destruct (replace_loop _ _ _ _ _ _) as [[[u k]|] t']; reflexivity.
  Qed.

  (* ---- the BeautifulSoup constructor's route ---- *)
  Definition from_encoding_list (fe : option str) : list str :=
    match fe with Some e => if is_empty e then [] else [e] | None => [] end.

  Theorem prepare_markup_str s fe excl : prepare_markup (MStr s) fe excl = Prepared s None None false.
  Proof. reflexivity. Qed.

  Theorem prepare_markup_bytes b fe excl :
    prepare_markup (MBytes b) fe excl =
    let r := dammit (MBytes b) (mkargs (from_encoding_list fe) [] [] excl true) in
    match r_text r with
    | Some t => Prepared t (r_orig r) (sniff (MBytes (fst (strip_bom b))) true) (r_flag r)
    | None => Rejected
    end.
  Proof.
    unfold Dammit.prepare_markup, from_encoding_list. cbv zeta.
    rewrite declared_reported. reflexivity.
  Qed.

  (* from_encoding is a known definite encoding: if the bytes decode under it, it wins over
     the byte-order mark, the declaration and the defaults *)
  Theorem from_encoding_first b e excl u k :
    b <> [] -> e <> [] -> excluded lower excl e = false ->
    find_codec e = Some k -> decode (fst (strip_bom b)) k Strict = Some u ->
    prepare_markup (MBytes b) (Some e) excl =
    Prepared u (Some k) (sniff (MBytes (fst (strip_bom b))) true) false.
  Proof.
    intros Hb He Hex Hf Hd. rewrite prepare_markup_bytes. cbv zeta.
    assert (O : outcome (dammit (MBytes b) (mkargs (from_encoding_list (Some e)) [] [] excl true))
                = (Some u, Some k, false)).
    { eapply (precedence_documented_order b _ [] e);
        [exact Hb | | exact Hex | intros y [] | intros y [] | apply attempt_some; tauto].
      cbn [a_known a_override a_user from_encoding_list]. destruct e; [contradiction|]. reflexivity. }
    remember (dammit (MBytes b) (mkargs (from_encoding_list (Some e)) [] [] excl true)) as r eqn:Hr.
    clear Hr. unfold outcome in O. injection O as O1 O2 O3. rewrite O1, O2, O3. reflexivity.
  Qed.

  (* ---- find_codec ---- *)
  Lemma alias_key_nonempty : assocS [] charset_aliases = None.
  Proof. reflexivity. Qed.

  Theorem find_codec_none_iff cs : find_codec cs = None <-> cs = [].
  Proof.
    unfold Dammit.find_codec, alias_of. split.
    - destruct cs as [|c cs]; [reflexivity|]. cbn [is_empty].
      destruct (codec_ known match assocS (c :: cs) charset_aliases with Some t => t | None => c :: cs end);
        cbn [or_else]; [discriminate|].
      destruct (codec_ known (remove_dashes (c :: cs))); cbn [or_else]; [discriminate|].
      destruct (codec_ known (dashes_to_underscores (c :: cs))); cbn [or_else]; [discriminate|].
      destruct (is_empty (lower (c :: cs))); discriminate.
    - intros ->. rewrite alias_key_nonempty. reflexivity.
  Qed.

  (* the value: the first of (alias target | the name), the name without dashes, the name with
     underscores that the interpreter knows; else the name itself; lower-cased *)
  Definition first_known (l : list str) : option str :=
    find (fun v => negb (is_empty v) && known v) l.

  Theorem find_codec_value cs :
    cs <> [] ->
    find_codec cs =
    Some (lower (match first_known [alias_of cs; remove_dashes cs; dashes_to_underscores cs] with
                 | Some v => v
                 | None => if is_empty (lower cs) then cs else lower cs
                 end)).
  Proof.
    intros Hcs. unfold Dammit.find_codec, first_known, codec_. cbn [find].
    destruct cs as [|c cs]; [contradiction|]. cbn [is_empty].
    destruct (is_empty (alias_of (c :: cs))); cbn [negb andb];
      [|destruct (known (alias_of (c :: cs))); cbn [or_else]; [reflexivity|]];
      (destruct (is_empty (remove_dashes (c :: cs))); cbn [negb andb];
       [|destruct (known (remove_dashes (c :: cs))); cbn [or_else]; [reflexivity|]];
       (destruct (is_empty (dashes_to_underscores (c :: cs))); cbn [negb andb];
        [|destruct (known (dashes_to_underscores (c :: cs))); cbn [or_else]; [reflexivity|]];
        destruct (is_empty (lower (c :: cs))); reflexivity)).
  Qed.

  (* a name the interpreter knows and that has no alias resolves to itself, lower-cased *)
  Theorem find_codec_known cs :
    cs <> [] -> assocS cs charset_aliases = None -> known cs = true -> find_codec cs = Some (lower cs).
  Proof.
    intros Hcs Ha Hk. rewrite find_codec_value by assumption. unfold first_known, alias_of.
    rewrite Ha. cbn [find]. destruct cs; [contradiction|]. cbn [is_empty negb andb]. rewrite Hk. reflexivity.
  Qed.
End DammitCorollaries.
