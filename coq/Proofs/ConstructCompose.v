(* C06 — proofs about Model/Construct.v, part 4: what the constructor returns is a well-linked tree in
   C01's sense, and stays one under any history of admissible editing calls.

   Composition of three results: retry_clean / attempt_independent_of_prior_state (Proofs/RetryClean.v:
   the returned object equals Model.Build.feed on every cell BELOW THE ALLOCATION COUNTER),
   parse_consistent (Proofs/ParseConsistent.v: the state of Model.Build.feed is [consistent]), and
   history_consistent (Proofs/EditRep.v).

   How "stale cells are unobservable" enters.  reset_obj keeps whatever earlier attempts left in the
   heap at the numbers at or beyond the new allocation counter.  [consistent s] (Proofs/EditRep.v) says:
   some forest F is represented by the heap, the ids of F are exactly the live ids below [nxt s], none of
   them is dead, and only BeautifulSoup objects stand outside their element chain.  Every clause reads
   the heap only at ids of F, i.e. below [nxt s] — that is lemma [consistent_below_counter] here — so
   agreement below the counter (which is what retry_clean gives) transfers consistency, and the stale
   cells beyond the counter are not mentioned by the statement at all.  The editing calls then run on
   the returned state itself (stale cells included): history_consistent needs nothing but
   consistency of the state it starts from. *)
From Coq Require Import List Arith Bool Lia.
From BS Require Import Base.Sexp Base.Types Model.Heap Model.Edit Model.EditOps Model.Build Model.Construct
  Spec.Tree Proofs.Views Proofs.EditRep Proofs.ParseConsistent Proofs.ConstructProofs Proofs.RetryClean.
Import ListNotations.
Open Scope nat_scope.

Definition agree_on (l : list nat) (h1 h2 : heap) : Prop := forall x, In x l -> h1 x = h2 x.

Lemma agree_on_incl l l' h1 h2 : incl l' l -> agree_on l h1 h2 -> agree_on l' h1 h2.
Proof. intros I A x Hx. apply A, I, Hx. Qed.

Lemma schain_ext L h1 h2 : agree_on L h1 h2 -> schain L h2 -> schain L h1.
Proof.
  intros A H i x Hx. rewrite (A x (nth_error_In _ _ Hx)). exact (H i x Hx).
Qed.
Lemma echain_ext L h1 h2 : agree_on L h1 h2 -> echain L h2 -> echain L h1.
Proof.
  intros A H i x Hx. rewrite (A x (nth_error_In _ _ Hx)). exact (H i x Hx).
Qed.

Lemma node_ok_ext h1 h2 t : agree_on (rid t :: map rid (tkids t)) h1 h2 -> node_ok h2 t -> node_ok h1 t.
Proof.
  intros A (K & S & P & L).
  assert (E : h1 (rid t) = h2 (rid t)) by (apply A; now left).
  unfold node_ok, is_tag. rewrite E. split; [exact K|]. split; [|split; [|exact L]].
  - eapply schain_ext; [|exact S]. eapply agree_on_incl; [|exact A]. intros x Hx. now right.
  - intros c Hc. rewrite (A (rid c)); [exact (P c Hc)|]. right. now apply in_map.
Qed.

Lemma subterm_rid_in t T : In t (subterms T) -> In (rid t) (pre T).
Proof.
  intros H. destruct (subterm_seg t T H) as (A & B & ->). apply in_or_app. right. apply in_or_app. left.
  rewrite pre_cons. now left.
Qed.

Lemma rep1_ext h1 h2 T b : agree_on (pre T) h1 h2 -> rep1 h2 T b -> rep1 h1 T b.
Proof.
  intros A (N & P & Ps & Ns & C).
  assert (E : h1 (rid T) = h2 (rid T)) by (apply A; rewrite pre_cons; now left).
  unfold rep1. rewrite E. split; [|split; [exact P | split; [exact Ps | split; [exact Ns|]]]].
  - intros t Ht. eapply node_ok_ext; [|exact (N t Ht)].
    intros x [<-|Hx]; apply A.
    + now apply subterm_rid_in.
    + apply in_map_iff in Hx as (c & <- & Hc). apply subterm_rid_in.
      eapply subterms_trans; [exact Ht|]. eapply in_subterms_kid; [exact Hc | apply subterms_self].
  - destruct b.
    + eapply echain_ext; [exact A | exact C].
    + destruct C as (C1 & C2 & C3). split; [|split; assumption].
      eapply echain_ext; [|exact C1]. eapply agree_on_incl; [|exact A].
      intros x Hx. rewrite pre_cons. now right.
Qed.

Lemma rep_ext F h1 h2 : agree_on (fids F) h1 h2 -> rep F h2 -> rep F h1.
Proof.
  intros A [ND H]. split; [exact ND|]. rewrite Forall_forall in *. intros tb Htb.
  eapply rep1_ext; [|exact (H tb Htb)]. eapply agree_on_incl; [|exact A].
  intros x Hx. unfold fids. apply in_flat_map. exists tb. auto.
Qed.

(* consistency reads the heap below the allocation counter only *)
Theorem consistent_below_counter : forall s1 s2,
  nxt s1 = nxt s2 -> (forall x, x < nxt s1 -> hp s1 x = hp s2 x) -> consistent s2 -> consistent s1.
Proof.
  intros s1 s2 En A [F (R & B1 & B2 & B3 & B4)]. exists F.
  assert (AF : agree_on (fids F) (hp s1) (hp s2)).
  { intros x Hx. apply A. rewrite En. exact (B1 x Hx). }
  split; [eapply rep_ext; eauto|]. split; [|split; [|split]].
  - intros x Hx. rewrite En. exact (B1 x Hx).
  - intros x Hx Hd. apply B2; [now rewrite <- En | rewrite <- (A x Hx); exact Hd].
  - intros x Hx. rewrite (AF x Hx). exact (B3 x Hx).
  - intros T HT. rewrite (AF (rid T)); [exact (B4 T HT)|].
    unfold fids. apply in_flat_map. exists (T, false). split; [exact HT|]. cbn [fst]. rewrite pre_cons. now left.
Qed.

Lemma same_object_consistent b1 b2 : same_object b1 b2 -> consistent (b_st b2) -> consistent (b_st b1).
Proof.
  intros (En & A & _). apply consistent_below_counter; [exact En|]. intros x Hx. exact (proj1 (A x Hx)).
Qed.

(* one attempt, from any prior state of the object *)
Lemma attempt_consistent cfg b evs : consistent (b_st (finish cfg (run_events cfg (reset_obj cfg b) evs))).
Proof.
  eapply same_object_consistent; [apply (attempt_independent_of_prior_state cfg b blank_obj evs)|].
  rewrite <- feed_is_fresh_attempt. apply parse_consistent.
Qed.

Lemma loop_returns_consistent cfg tail : forall ss b rej s,
  construct_loop cfg b rej ss tail = CSoup s -> consistent (b_st (so_b s)).
Proof.
  induction ss as [|st ss IH]; intros b rej s; cbn [construct_loop].
  - destruct tail; discriminate.
  - destruct (st_out st) as [evs|evs msg|evs e].
    + intros X; inversion X; subst. cbn [so_b]. apply attempt_consistent.
    + destruct (catches _ _); [|discriminate]. apply IH.
    + destruct e as [?|c]; [discriminate|]. destruct (catches _ c); [|discriminate]. apply IH.
Qed.

(* whenever the constructor returns an object — whatever the strategies were (k rejected attempts, each
   after any events, then an accepted one), whatever state the object was in before — the heap below its
   allocation counter is one consistent forest: every element of it lies in exactly one represented tree,
   all six links of every element are what that tree dictates *)
Theorem returned_tree_well_linked : forall cfg b0 ss tail s,
  construct cfg b0 ss tail = CSoup s -> consistent (b_st (so_b s)).
Proof. intros cfg b0 ss tail s. unfold construct. apply loop_returns_consistent. Qed.

(* the form of the property's retry clause *)
Corollary retry_returns_well_linked : forall cfg b0 rejected acc evs rest tail,
  forallb is_reject rejected = true -> st_out acc = Accept evs ->
  exists s, construct cfg b0 (rejected ++ acc :: rest) tail = CSoup s /\
            same_object (so_b s) (feed cfg evs) /\ consistent (b_st (so_b s)).
Proof.
  intros cfg b0 rejected acc evs rest tail H Ha.
  destruct (retry_clean cfg b0 rejected acc evs rest tail H Ha) as (s & E & _ & S).
  exists s. split; [exact E|]. split; [exact S|]. exact (returned_tree_well_linked _ _ _ _ _ E).
Qed.

(* ... and any finite history of editing calls on the returned object (inadmissible ones are refused, as
   the code does) leaves a consistent forest *)
Theorem returned_tree_editable : forall cfg b0 ss tail s ops,
  construct cfg b0 ss tail = CSoup s -> consistent (run_history (b_st (so_b s)) ops).
Proof. intros. apply history_consistent. eapply returned_tree_well_linked; eauto. Qed.

(* the premise of every navigation-view theorem of C01 holds for every live element of the result *)
Theorem returned_tree_views_premise : forall cfg b0 ss tail s ops x,
  construct cfg b0 ss tail = CSoup s -> live (run_history (b_st (so_b s)) ops) x ->
  exists F T b, cons_with F (run_history (b_st (so_b s)) ops) /\ In (T, b) F /\ In x (pre T) /\
                rep1 (hp (run_history (b_st (so_b s)) ops)) T b.
Proof. intros. apply consistent_views_premise; [eapply returned_tree_editable; eauto | assumption]. Qed.
