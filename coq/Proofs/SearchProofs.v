(* C10 — proofs: the search of Model/Search.v (rule objects, strainer, short-circuit loops, the two
   fast paths of _find_all, the limit loop) computes the documented result of Spec/SearchSpec.v for
   every heap, side table, axis list, pattern / function semantics and every query of the domain. *)
From Coq Require Import List NArith ZArith Bool Arith Lia.
From BS Require Import Base.Sexp Base.Types Model.Heap Model.Iter Model.Attrs Model.Search Spec.SearchSpec.
Import ListNotations.
Local Open Scope nat_scope.

(* ---- the writer monad ---- *)
Lemma fst_bind {A B} (m : M A) (f : A -> M B) : fst (bind m f) = fst (f (fst m)).
Proof. unfold bind. destruct m as [a l]. cbn. destruct (f a). reflexivity. Qed.

Lemma snd_bind {A B} (m : M A) (f : A -> M B) : snd (bind m f) = snd m ++ snd (f (fst m)).
Proof. unfold bind. destruct m as [a l]. cbn. destruct (f a). reflexivity. Qed.

Lemma fst_any_m {X} (f : X -> M bool) l : fst (any_m f l) = existsb (fun x => fst (f x)) l.
Proof.
  induction l as [|x l IH]; cbn; [reflexivity|].
  rewrite fst_bind. destruct (fst (f x)); cbn; [reflexivity|exact IH].
Qed.

Lemma fst_all_m {X} (f : X -> M bool) l : fst (all_m f l) = forallb (fun x => fst (f x)) l.
Proof.
  induction l as [|x l IH]; cbn; [reflexivity|].
  rewrite fst_bind. destruct (fst (f x)); cbn; [exact IH|reflexivity].
Qed.

Lemma existsb_ext {X} (f g : X -> bool) l : (forall x, In x l -> f x = g x) -> existsb f l = existsb g l.
Proof.
  induction l as [|x l IH]; cbn; intros H; [reflexivity|].
  rewrite (H x) by now left. rewrite IH; [reflexivity|]. intros y Hy. apply H. now right.
Qed.

Lemma forallb_ext {X} (f g : X -> bool) l : (forall x, In x l -> f x = g x) -> forallb f l = forallb g l.
Proof.
  induction l as [|x l IH]; cbn; intros H; [reflexivity|].
  rewrite (H x) by now left. rewrite IH; [reflexivity|]. intros y Hy. apply H. now right.
Qed.

Lemma existsb_flat_map {X Y} (f : X -> list Y) (p : Y -> bool) l :
  existsb p (flat_map f l) = existsb (fun x => existsb p (f x)) l.
Proof. induction l as [|x l IH]; cbn; [reflexivity|]. now rewrite existsb_app, IH. Qed.

Lemma existsb_false {X} (l : list X) : existsb (fun _ => false) l = false.
Proof. induction l; cbn; auto. Qed.

Lemma existsb_swap {X Y} (p : X -> Y -> bool) (l : list X) (m : list Y) :
  existsb (fun x => existsb (fun y => p x y) m) l = existsb (fun y => existsb (fun x => p x y) l) m.
Proof.
  induction l as [|x l IH]; cbn.
  - now rewrite existsb_false.
  - rewrite IH. clear IH. induction m as [|y m IHm]; cbn; [reflexivity|].
    rewrite <- IHm. destruct (p x y), (existsb (fun x0 => p x0 y) l), (existsb (fun y0 => p x y0) m); cbn;
      rewrite ?orb_true_r; reflexivity.
Qed.

Lemma existsb_map {X Y} (f : X -> Y) (p : Y -> bool) l : existsb p (map f l) = existsb (fun x => p (f x)) l.
Proof. induction l as [|x l IH]; cbn; [reflexivity|]. now rewrite IH. Qed.

Lemma forallb_map {X Y} (f : X -> Y) (p : Y -> bool) l : forallb p (map f l) = forallb (fun x => p (f x)) l.
Proof. induction l as [|x l IH]; cbn; [reflexivity|]. now rewrite IH. Qed.

Lemma filter_cons_app {X} (f : X -> bool) x l : filter f (x :: l) = filter f [x] ++ filter f l.
Proof. cbn. destruct (f x); reflexivity. Qed.

Lemma str_eqb_refl s : str_eqb s s = true.
Proof. now apply str_eqb_eq. Qed.

Lemma str_eqb_sym a b : str_eqb a b = str_eqb b a.
Proof.
  destruct (str_eqb a b) eqn:E.
  - apply str_eqb_eq in E. subst. now rewrite str_eqb_refl.
  - destruct (str_eqb b a) eqn:E'; [|reflexivity]. apply str_eqb_eq in E'. subst. now rewrite str_eqb_refl in E.
Qed.

(* ---- reading the arguments: text=, class_=, the attribute-rule dictionary ---- *)
Lemma kw_absent k kw : memS k (map fst kw) = false -> kw_find k kw = None /\ kw_without k kw = kw.
Proof.
  unfold kw_without. induction kw as [|[k' c] kw IH]; cbn; [auto|].
  intros H. apply orb_false_iff in H as [H1 H2]. rewrite H1. cbn. destruct (IH H2) as [E1 E2].
  split; [exact E1|]. now rewrite E2.
Qed.

Lemma kw_pop_spec k kw : distinct (map fst kw) = true ->
  kw_pop k kw = match kw_find k kw with Some c => Some (c, kw_without k kw) | None => None end.
Proof.
  induction kw as [|[k' c] kw IH]; cbn; [reflexivity|].
  intros H. apply andb_true_iff in H as [H1 H2]. apply negb_true_iff in H1.
  destruct (str_eqb k k') eqn:E; cbn.
  - apply str_eqb_eq in E. subst k'. destruct (kw_absent k kw H1) as [_ E2].
    unfold kw_without in *. now rewrite E2.
  - rewrite (IH H2). unfold kw_without. destruct (kw_find k kw); reflexivity.
Qed.

Lemma kw_find_pop_none k kw : kw_find k kw = None -> kw_pop k kw = None.
Proof.
  induction kw as [|[k' c] kw IH]; cbn; [reflexivity|].
  destruct (str_eqb k k'); [discriminate|]. intros H. now rewrite (IH H).
Qed.

Lemma kw_find_without k kw : kw_find k (kw_without k kw) = None.
Proof.
  unfold kw_without. induction kw as [|[k' c] kw IH]; cbn; [reflexivity|].
  destruct (str_eqb k k') eqn:E; cbn; [exact IH|]. now rewrite E.
Qed.

Definition eff_kwargs (q : query) : list (str * crit) :=
  if text_is_string q then kw_without lit_text (q_kwargs q) else q_kwargs q.

Lemma pop_text_eff q : distinct (map fst (q_kwargs q)) = true ->
  pop_text (q_string q) (q_kwargs q) = (eff_string q, eff_kwargs q).
Proof.
  intros D. unfold pop_text, eff_string, eff_kwargs, text_is_string.
  destruct (is_none_crit (q_string q)); cbn; [|reflexivity].
  rewrite (kw_pop_spec _ _ D). destruct (kw_find lit_text (q_kwargs q)); reflexivity.
Qed.

Lemma pop_text_idem q : pop_text (eff_string q) (eff_kwargs q) = (eff_string q, eff_kwargs q).
Proof.
  unfold pop_text. destruct (is_none_crit (eff_string q)) eqn:E; [|reflexivity].
  assert (H : kw_find lit_text (eff_kwargs q) = None).
  { unfold eff_kwargs. destruct (text_is_string q) eqn:T; [apply kw_find_without|].
    unfold eff_string in E. rewrite T in E. unfold text_is_string in T. rewrite E in T. cbn in T.
    destruct (kw_find lit_text (q_kwargs q)); [discriminate|reflexivity]. }
  now rewrite (kw_find_pop_none _ _ H).
Qed.

Lemma memS_sym_false k a : existsb (fun x => str_eqb x k) a = false -> memS k a = false.
Proof.
  unfold memS. induction a as [|y a IH]; cbn; [reflexivity|].
  intros H. apply orb_false_iff in H as [H1 H2]. rewrite str_eqb_sym, H1. cbn. exact (IH H2).
Qed.

Lemma distinct_mid a k b : distinct (a ++ k :: b) = true -> memS k a = false.
Proof.
  intros H. apply memS_sym_false. induction a as [|y a IH]; cbn in *; [reflexivity|].
  apply andb_true_iff in H as [H1 H2]. apply negb_true_iff in H1.
  unfold memS in H1. rewrite existsb_app in H1. apply orb_false_iff in H1 as [_ H1]. cbn in H1.
  apply orb_false_iff in H1 as [H1 _]. rewrite H1. cbn. exact (IH H2).
Qed.

Lemma add_rules_to_fresh k rs d : memS k (map fst d) = false -> add_rules_to k rs d = d ++ [(k, rs)].
Proof.
  induction d as [|[k' v] d IH]; cbn; [reflexivity|].
  intros H. apply orb_false_iff in H as [H1 H2]. rewrite H1. now rewrite (IH H2).
Qed.

Lemma add_rules_fold (l : list (str * crit)) : forall acc,
  distinct (map fst acc ++ map fst l) = true ->
  (forall kc, In kc l -> make_rules (attr_crit (snd kc)) <> []) ->
  fold_left (fun d kc => add_rules (fst kc) (make_rules (attr_crit (snd kc))) d) l acc =
  acc ++ map (fun kc => (fst kc, make_rules (attr_crit (snd kc)))) l.
Proof.
  induction l as [|[k c] l IH]; intros acc D NE; cbn.
  - now rewrite app_nil_r.
  - cbn in D. pose proof (distinct_mid _ _ _ D) as F.
    assert (R : make_rules (attr_crit c) <> []) by (apply (NE (k, c)); now left).
    unfold add_rules at 2. cbn [fst snd]. destruct (make_rules (attr_crit c)) eqn:E; [congruence|].
    rewrite (add_rules_to_fresh _ _ _ F). rewrite IH.
    + now rewrite <- app_assoc.
    + rewrite map_app. cbn. now rewrite <- app_assoc.
    + intros kc Hk. apply NE. now right.
Qed.

Lemma usable_rules c : crit_usable c = true -> make_rules c <> [].
Proof.
  unfold crit_usable, items, make_rules. destruct c as [a|l].
  - cbn. rewrite orb_false_r. destruct a; cbn; congruence.
  - induction l as [|a l IH]; cbn; [discriminate|].
    intros H. apply orb_true_iff in H as [H|H].
    + destruct a; cbn in *; congruence.
    + specialize (IH H). destruct (atom_rules a); cbn; [exact IH|congruence].
Qed.

Lemma ok_attr_rules c : name_crit_ok c = true -> make_rules (attr_crit c) <> [].
Proof.
  unfold name_crit_ok. intros H. apply orb_true_iff in H as [H|H].
  - destruct c as [[]|]; cbn in *; congruence.
  - destruct c as [a|l]; [destruct a; cbn in *; congruence|]. cbn [attr_crit]. now apply usable_rules.
Qed.

Lemma ok_rules_null c : name_crit_ok c = true -> null (make_rules c) = is_none_crit c.
Proof.
  unfold name_crit_ok. intros H. destruct (is_none_crit c) eqn:E.
  - destruct c as [[]|]; cbn in *; congruence.
  - cbn in H. pose proof (usable_rules c H). destruct (make_rules c); [congruence|reflexivity].
Qed.

(* ---- colons: name.count(":") == 1 and name.split(":", 1) ---- *)
Lemma count_colon_app a b : count_colon (a ++ b) = count_colon a + count_colon b.
Proof. induction a as [|c a IH]; cbn; [reflexivity|]. rewrite IH. lia. Qed.

Lemma no_colon_count s : no_colon s = true -> count_colon s = 0.
Proof.
  unfold no_colon. induction s as [|c s IH]; cbn; [reflexivity|].
  intros H. apply andb_true_iff in H as [H1 H2]. apply negb_true_iff in H1. rewrite H1. cbn. exact (IH H2).
Qed.

Lemma count_qualified p n : no_colon p = true -> no_colon n = true -> count_colon (p ++ colon :: n) = 1.
Proof.
  intros Hp Hn. rewrite count_colon_app. cbn [count_colon].
  rewrite (no_colon_count _ Hp), (no_colon_count _ Hn). reflexivity.
Qed.

Lemma str_eqb_count a b : count_colon a <> count_colon b -> str_eqb a b = false.
Proof. intros H. destruct (str_eqb a b) eqn:E; [|reflexivity]. apply str_eqb_eq in E. congruence. Qed.

Lemma split_colon_spec s : count_colon s <> 0 ->
  s = fst (split_colon s) ++ colon :: snd (split_colon s) /\ no_colon (fst (split_colon s)) = true.
Proof.
  induction s as [|c s IH]; cbn; [congruence|].
  destruct (N.eqb c colon) eqn:E; cbn.
  - intros _. apply N.eqb_eq in E. subst c. split; reflexivity.
  - intros H. destruct (IH H) as [E1 E2]. destruct (split_colon s) as [a b]. cbn in *.
    split; [congruence|]. now rewrite E, E2.
Qed.

Lemma first_colon_unique a : forall a' b b', no_colon a = true -> no_colon a' = true ->
  a ++ colon :: b = a' ++ colon :: b' -> a = a' /\ b = b'.
Proof.
  unfold no_colon. induction a as [|c a IH]; intros [|c' a'] b b' H H' E; cbn in *.
  - inversion E. auto.
  - inversion E. subst c'. rewrite N.eqb_refl in H'. discriminate.
  - inversion E. subst c. rewrite N.eqb_refl in H. discriminate.
  - inversion E. subst c'. apply andb_true_iff in H as [_ H]. apply andb_true_iff in H' as [_ H'].
    destruct (IH a' b b' H H' H2) as [E1 E2]. subst. auto.
Qed.

Section Proofs.
  Variable pat_sem : N -> str -> bool.
  Variable fun_sem : N -> callarg -> bool.
  Variable h : heap.
  Variable xm : xmap.

  Notation matches_string := (matches_string pat_sem fun_sem).
  Notation base_match := (base_match pat_sem).
  Notation item_val := (item_val pat_sem fun_sem).
  Notation crit_val := (crit_val pat_sem fun_sem).
  Notation attr_crit_val := (attr_crit_val pat_sem fun_sem).
  Notation item_name := (item_name pat_sem fun_sem h xm).
  Notation name_ok := (name_ok pat_sem fun_sem h xm).
  Notation attr_ok := (attr_ok pat_sem fun_sem xm).
  Notation matches_spec := (matches_spec pat_sem fun_sem h xm).
  Notation find_all_spec := (find_all_spec pat_sem fun_sem h xm).

  (* ---- one rule against one value = one item against one value ---- *)
  Lemma atom_rules_val st a text arg :
    existsb (fun r => fst (matches_string st r (mksv text arg))) (atom_rules a) = item_val a text arg.
  Proof.
    destruct a as [s|s|[|]|f|p| |]; cbn; unfold Search.matches_string; cbn;
      try (destruct text; cbn; rewrite ?orb_false_r; reflexivity); now rewrite orb_false_r.
  Qed.

  Lemma make_rules_val st c text arg :
    existsb (fun r => fst (matches_string st r (mksv text arg))) (make_rules c) = crit_val c text arg.
  Proof.
    unfold Search.make_rules, SearchSpec.crit_val, items. destruct c as [a|l].
    - rewrite atom_rules_val. cbn. now rewrite orb_false_r.
    - rewrite existsb_flat_map. apply existsb_ext. intros a _. apply atom_rules_val.
  Qed.

  Lemma attr_crit_val_eq c text arg : crit_val (attr_crit c) text arg = attr_crit_val c text arg.
  Proof.
    destruct c as [a|l]; [destruct a as [s|s|b|f|p| |]|]; cbn; try reflexivity.
    destruct text; reflexivity.
  Qed.

  (* ---- the name criterion ---- *)
  Definition name_rule_m (x : nat) (r : rule) : M bool :=
    bind (rule_matches_tag pat_sem fun_sem h r x) (fun b =>
      if b then ret true
      else match prefixed_of (x_prefix (xm x)) (txt (h x)) with
           | Some pn => ret (match base_match r (Some pn) with Some true => true | _ => false end)
           | None => ret false
           end).

  Lemma qualified_prefixed x : qualified_name h xm x = prefixed_of (x_prefix (xm x)) (txt (h x)).
  Proof. reflexivity. Qed.

  Lemma atom_rules_name x a : existsb (fun r => fst (name_rule_m x r)) (atom_rules a) = item_name a x.
  Proof.
    unfold SearchSpec.item_name. rewrite qualified_prefixed.
    destruct a as [s|s|[|]|f|p| |]; cbn; unfold name_rule_m; rewrite ?fst_bind; cbn;
      try reflexivity.
    - destruct (str_eqb s (txt (h x))); cbn; [reflexivity|].
      destruct (prefixed_of _ _); cbn; [|reflexivity]. destruct (str_eqb s s0); reflexivity.
    - destruct (str_eqb s (txt (h x))); cbn; [reflexivity|].
      destruct (prefixed_of _ _); cbn; [|reflexivity]. destruct (str_eqb s s0); reflexivity.
    - destruct (prefixed_of _ _); reflexivity.
    - destruct (fun_sem f (ArgEl x)); cbn; [reflexivity|]. destruct (prefixed_of _ _); reflexivity.
    - destruct (pat_sem p (txt (h x))); cbn; [reflexivity|].
      destruct (prefixed_of _ _); cbn; [|reflexivity]. destruct (pat_sem p s); reflexivity.
  Qed.

  Lemma make_rules_name x c :
    existsb (fun r => fst (name_rule_m x r)) (make_rules c) = existsb (fun a => item_name a x) (items c).
  Proof.
    unfold Search.make_rules, items. destruct c as [a|l].
    - rewrite atom_rules_name. cbn. now rewrite orb_false_r.
    - rewrite existsb_flat_map. apply existsb_ext. intros a _. apply atom_rules_name.
  Qed.

  (* ---- one attribute ---- *)
  Lemma match_values_b rules vals :
    fst (match_values pat_sem fun_sem rules vals) =
    existsb (fun v => existsb (fun r => fst (matches_string SAttr r v)) rules) vals.
  Proof.
    unfold match_values. rewrite fst_any_m.
    rewrite <- existsb_swap. apply existsb_ext. intros r _. apply fst_any_m.
  Qed.

  Lemma join_sp_one (t : str) : join_sp [t] = t.
  Proof. reflexivity. Qed.

  Lemma attribute_match_spec c v :
    fst (attribute_match pat_sem fun_sem (make_rules (attr_crit c)) v) =
    match v with
    | None => attr_crit_val c None ArgNone
    | Some (AvStr s) => attr_crit_val c (Some s) (ArgStr s)
    | Some (AvList l) =>
        existsb (fun t => attr_crit_val c (Some t) (ArgStr t)) l ||
        attr_crit_val c (Some (join_sp l)) (ArgStr (join_sp l))
    end.
  Proof.
    unfold attribute_match. rewrite fst_bind, match_values_b.
    destruct v as [[s|l]|]; cbn [attr_values length Nat.eqb negb andb].
    - cbn. rewrite orb_false_r. unfold sv_str. rewrite make_rules_val, attr_crit_val_eq.
      now rewrite andb_false_r.
    - rewrite existsb_map.
      assert (E : existsb (fun x => existsb (fun r => fst (matches_string SAttr r (sv_str x))) (make_rules (attr_crit c))) l
                  = existsb (fun t => attr_crit_val c (Some t) (ArgStr t)) l).
      { apply existsb_ext. intros t _. unfold sv_str. now rewrite make_rules_val, attr_crit_val_eq. }
      rewrite E. rewrite map_length.
      destruct (existsb (fun t => attr_crit_val c (Some t) (ArgStr t)) l) eqn:Ex; cbn [negb andb orb].
      + reflexivity.
      + destruct (Nat.eqb (length l) 1) eqn:El; cbn [negb].
        * cbn [fst ret]. destruct l as [|t [|t' l']]; try discriminate.
          cbn in Ex. rewrite orb_false_r in Ex. rewrite join_sp_one. now rewrite Ex.
        * rewrite match_values_b. cbn [existsb attr_joined]. rewrite orb_false_r.
          unfold sv_str. now rewrite make_rules_val, attr_crit_val_eq.
    - cbn. rewrite orb_false_r. unfold sv_none. rewrite make_rules_val, attr_crit_val_eq.
      now rewrite andb_false_r.
  Qed.

  (* ---- the "plain tag name" fast path agrees with the name criterion ---- *)
  Lemma fast_name_match_spec s x : name_wf h xm x = true ->
    fast_name_match h xm s x = item_name (AtStr s) x.
  Proof.
    unfold name_wf, fast_name_match, SearchSpec.item_name, qualified_name.
    set (n := txt (h x)). rewrite (str_eqb_sym s n).
    destruct (x_prefix (xm x)) as [p|].
    - intros W. apply andb_true_iff in W as [W Wn]. apply andb_true_iff in W as [Wp Wc].
      destruct p as [|c p]; [discriminate|]. set (pp := c :: p) in *.
      destruct (Nat.eqb (count_colon s) 1) eqn:C.
      + apply Nat.eqb_eq in C.
        assert (Cn : count_colon s <> 0) by lia.
        destruct (split_colon_spec s Cn) as [E1 E2]. destruct (split_colon s) as [pre loc]. cbn in E1, E2.
        assert (Hns : str_eqb n s = false).
        { apply str_eqb_count. rewrite (no_colon_count _ Wn). lia. }
        rewrite Hns. cbn [orb].
        destruct (str_eqb n loc && str_eqb pp pre) eqn:B.
        * apply andb_true_iff in B as [B1 B2]. apply str_eqb_eq in B1, B2. subst loc pre.
          symmetry. apply str_eqb_eq. exact E1.
        * symmetry. destruct (str_eqb s (pp ++ colon :: n)) eqn:Q; [|reflexivity].
          apply str_eqb_eq in Q. rewrite Q in E1.
          destruct (first_colon_unique pp pre n loc Wc E2 E1) as [F1 F2]. subst.
          now rewrite !str_eqb_refl in B.
      + apply Nat.eqb_neq in C.
        assert (Q : str_eqb s (pp ++ colon :: n) = false).
        { apply str_eqb_count. rewrite (count_qualified pp n Wc Wn). exact C. }
        rewrite Q. destruct (str_eqb n s); reflexivity.
    - intros _. destruct (Nat.eqb (count_colon s) 1).
      + destruct (split_colon s) as [pre loc]. destruct (str_eqb n s), (str_eqb n loc); reflexivity.
      + destruct (str_eqb n s); reflexivity.
  Qed.

  (* ---- the strainer built from a query of the domain ---- *)
  Definition spec_strainer (q : query) : strainer :=
    mkstr (make_rules (q_name q))
          (map (fun kc => (fst kc, make_rules (attr_crit (snd kc)))) (eff_attr_crits q))
          (make_rules (eff_string q)).

  Lemma query_ok_parts q : query_ok q = true ->
    name_crit_ok (q_name q) = true /\ name_crit_ok (eff_string q) = true /\
    forallb (fun kc => name_crit_ok (snd kc)) (eff_attr_crits q) = true /\
    distinct (map fst (q_kwargs q)) = true /\ distinct (map fst (eff_attr_crits q)) = true /\
    match q_attrs q with AttrsOther _ t => t | AttrsDict _ => true end = true.
  Proof. unfold query_ok. intros H. repeat (apply andb_true_iff in H as [H ?]). auto 10. Qed.

  Lemma mk_strainer_eff q : query_ok q = true ->
    mk_strainer (q_name q) (q_attrs q) (eff_string q) (eff_kwargs q) = spec_strainer q.
  Proof.
    intros Q. destruct (query_ok_parts q Q) as (_ & _ & Ha & _ & Hd & _).
    unfold mk_strainer. rewrite pop_text_idem. unfold spec_strainer. f_equal.
    change (match q_attrs q with AttrsDict l => l | AttrsOther c _ => [(lit_class, c)] end ++
            map (fun kc => (if str_eqb (fst kc) lit_class_ then lit_class else fst kc, snd kc)) (eff_kwargs q))
      with (eff_attr_crits q).
    rewrite (add_rules_fold (eff_attr_crits q) []); [reflexivity|exact Hd|].
    intros kc Hin. apply ok_attr_rules. rewrite forallb_forall in Ha. now apply Ha.
  Qed.

  Lemma noattr_null q : query_ok q = true ->
    attrs_falsy (q_attrs q) && null (eff_kwargs q) = null (eff_attr_crits q).
  Proof.
    intros Q. destruct (query_ok_parts q Q) as (_ & _ & _ & _ & _ & Ht).
    unfold eff_attr_crits. fold (eff_kwargs q). unfold attrs_falsy.
    destruct (q_attrs q) as [l|c t].
    - destruct l; cbn; [|reflexivity]. destruct (eff_kwargs q); reflexivity.
    - subst t. reflexivity.
  Qed.

  Lemma fst_if {A} (b : bool) (x y : M A) : fst (if b then x else y) = if b then fst x else fst y.
  Proof. destruct b; reflexivity. Qed.

  Lemma has_prefix_none p n : has_prefix p = false -> prefixed_of p n = None.
  Proof. destruct p as [[|]|]; cbn; congruence. Qed.

  Lemma name_ok_rules c x :
    name_ok c x = is_none_crit c || existsb (fun r => fst (name_rule_m x r)) (make_rules c).
  Proof. unfold SearchSpec.name_ok. now rewrite make_rules_name. Qed.

  (* SoupStrainer.matches_tag computes the documented meaning, whenever the query has a criterion *)
  Lemma matches_tag_spec fuel q x : query_ok q = true -> is_tag h x = true ->
    is_none_crit (q_name q) && null (eff_attr_crits q) && is_none_crit (eff_string q) = false ->
    fst (matches_tag pat_sem fun_sem h xm fuel (spec_strainer q) x) = matches_spec fuel q x.
  Proof.
    intros Q T NZ. destruct (query_ok_parts q Q) as (Hn & Hs & Ha & _ & _ & _).
    unfold SearchSpec.matches_spec. rewrite T. unfold matches_tag. cbn [s_name s_attrs s_string spec_strainer].
    rewrite (ok_rules_null _ Hn), (ok_rules_null _ Hs).
    assert (NA : null (map (fun kc => (fst kc, make_rules (attr_crit (snd kc)))) (eff_attr_crits q)) = null (eff_attr_crits q))
      by (destruct (eff_attr_crits q); reflexivity).
    rewrite NA. rewrite name_ok_rules.
    destruct (is_none_crit (q_name q) && null (eff_attr_crits q)) eqn:B1.
    { (* only a string criterion: never a tag *)
      cbn in NZ. apply andb_true_iff in B1 as [B1 B2]. rewrite B1, B2, NZ. reflexivity. }
    assert (F : negb (is_none_crit (q_name q)) || negb (null (eff_attr_crits q)) || is_none_crit (eff_string q) = true).
    { destruct (is_none_crit (q_name q)), (null (eff_attr_crits q)); cbn in *; congruence. }
    rewrite F. cbn [andb].
    (* the single-name shortcut only ever answers False when the name criterion fails *)
    destruct (negb (has_prefix (x_prefix (xm x))) &&
              match make_rules (q_name q) with [RStr s] => negb (str_eqb (txt (h x)) s) | _ => false end) eqn:OPT.
    { apply andb_true_iff in OPT as [O1 O2]. apply negb_true_iff in O1.
      destruct (make_rules (q_name q)) as [|[s| | |] [|]] eqn:R; try discriminate.
      assert (Nn : is_none_crit (q_name q) = false).
      { rewrite <- (ok_rules_null _ Hn), R. reflexivity. }
      rewrite Nn. cbn [orb existsb]. unfold name_rule_m. rewrite fst_bind.
      unfold rule_matches_tag. cbn [Search.base_match ret fst].
      apply negb_true_iff in O2. rewrite (str_eqb_sym s), O2. cbn [fst ret].
      rewrite (has_prefix_none _ _ O1). reflexivity. }
    clear OPT. rewrite fst_bind.
    match goal with |- context [negb (fst ?t)] =>
      assert (NM : fst t = is_none_crit (q_name q) || existsb (fun r => fst (name_rule_m x r)) (make_rules (q_name q)))
    end.
    { destruct (is_none_crit (q_name q)); [reflexivity|]. cbn [orb]. apply fst_any_m. }
    rewrite NM. clear NM.
    destruct (is_none_crit (q_name q) || existsb (fun r => fst (name_rule_m x r)) (make_rules (q_name q)));
      cbn [negb andb]; [|reflexivity].
    rewrite fst_bind, fst_all_m, forallb_map.
    assert (AM : forallb (fun kc => fst (attribute_match pat_sem fun_sem (snd (fst kc, make_rules (attr_crit (snd kc))))
                                          (aget (fst (fst kc, make_rules (attr_crit (snd kc)))) (x_attrs (xm x)))))
                         (eff_attr_crits q)
                 = forallb (fun kc => attr_ok kc x) (eff_attr_crits q)).
    { apply forallb_ext. intros kc _. cbn [fst snd]. rewrite attribute_match_spec. unfold SearchSpec.attr_ok.
      destruct (aget (fst kc) (x_attrs (xm x))) as [[|]|]; reflexivity. }
    rewrite AM. clear AM.
    destruct (forallb (fun kc => attr_ok kc x) (eff_attr_crits q)); cbn [negb andb]; [|reflexivity].
    destruct (is_none_crit (eff_string q)) eqn:SN; cbn [orb]; [reflexivity|].
    unfold SearchSpec.string_ok_tag. destruct (tag_string h fuel x) as [sid|]; [|reflexivity].
    unfold matches_any_string_rule. cbn [s_string spec_strainer]. rewrite (ok_rules_null _ Hs), SN.
    rewrite fst_any_m. unfold sv_el. apply make_rules_val.
  Qed.

  (* SoupStrainer.match on a NavigableString *)
  Lemma match_string_spec fuel q x : query_ok q = true -> is_tag h x = false ->
    fst (match_el pat_sem fun_sem h xm fuel (spec_strainer q) x) = matches_spec fuel q x.
  Proof.
    intros Q T. destruct (query_ok_parts q Q) as (Hn & Hs & Ha & _ & _ & _).
    unfold SearchSpec.matches_spec, match_el. rewrite T. cbn [s_name s_attrs s_string spec_strainer].
    rewrite (ok_rules_null _ Hn).
    assert (NA : null (map (fun kc => (fst kc, make_rules (attr_crit (snd kc)))) (eff_attr_crits q)) = null (eff_attr_crits q))
      by (destruct (eff_attr_crits q); reflexivity).
    rewrite NA.
    destruct (is_none_crit (q_name q) && null (eff_attr_crits q)); cbn [andb]; [|reflexivity].
    rewrite fst_any_m. unfold sv_el. rewrite make_rules_val.
    destruct (is_none_crit (eff_string q)) eqn:SN; [|reflexivity].
    destruct (eff_string q) as [[]|]; cbn in SN; try discriminate. reflexivity.
  Qed.

  Lemma match_el_spec fuel q x : query_ok q = true ->
    is_none_crit (q_name q) && null (eff_attr_crits q) && is_none_crit (eff_string q) = false ->
    fst (match_el pat_sem fun_sem h xm fuel (spec_strainer q) x) = matches_spec fuel q x.
  Proof.
    intros Q NZ. destruct (is_tag h x) eqn:T.
    - unfold match_el. rewrite T. now apply matches_tag_spec.
    - now apply match_string_spec.
  Qed.

  (* ---- the limit loops ---- *)
  Definition cut {X} (lim : option nat) (n : nat) (l : list X) : list X :=
    match lim with Some (S k) => firstn (S k - n) l | _ => l end.

  Definition lim_room (lim : option nat) (n : nat) : Prop :=
    match lim with Some (S k) => n <= k | _ => True end.

  Lemma cut_zero {X} lim (l : list X) : cut lim 0 l = take_limit lim l.
  Proof. destruct lim as [[|k]|]; reflexivity. Qed.

  Lemma ef_find_all_fst fuel sr lim L : forall n, lim_room lim n ->
    fst (ef_find_all pat_sem fun_sem h xm fuel sr lim L n) =
    cut lim n (filter (fun x => fst (match_el pat_sem fun_sem h xm fuel sr x)) L).
  Proof.
    induction L as [|x L IH]; intros n Hn; cbn [ef_find_all filter].
    - destruct lim as [[|k]|]; cbn; [reflexivity| |reflexivity]. now rewrite firstn_nil.
    - rewrite fst_bind. destruct (fst (match_el pat_sem fun_sem h xm fuel sr x)) eqn:E.
      + destruct lim as [[|k]|]; cbn [limit_hit cut lim_room] in *.
        * rewrite fst_bind. cbn. now rewrite (IH (S n) I).
        * destruct (Nat.leb (S k) (S n)) eqn:LE.
          -- apply Nat.leb_le in LE. replace (S k - n) with 1 by lia. reflexivity.
          -- apply Nat.leb_gt in LE. rewrite fst_bind. cbn [fst ret].
             assert (R : lim_room (Some (S k)) (S n)) by (cbn; lia).
             rewrite (IH (S n) R). cbn [cut].
             replace (S k - n) with (S (S k - S n)) by lia. reflexivity.
        * rewrite fst_bind. cbn. now rewrite (IH (S n) I).
      + apply IH. exact Hn.
  Qed.

  Lemma take_tags_spec lim L : forall n, lim_room lim n ->
    take_tags h lim L n = cut lim n (filter (is_tag h) L).
  Proof.
    induction L as [|x L IH]; intros n Hn; cbn [take_tags filter].
    - destruct lim as [[|k]|]; cbn; [reflexivity| |reflexivity]. now rewrite firstn_nil.
    - destruct (is_tag h x) eqn:E.
      + destruct lim as [[|k]|]; cbn [limit_hit cut lim_room] in *.
        * now rewrite (IH (S n) I).
        * destruct (Nat.leb (S k) (S n)) eqn:LE.
          -- apply Nat.leb_le in LE. replace (S k - n) with 1 by lia. reflexivity.
          -- apply Nat.leb_gt in LE.
             assert (R : lim_room (Some (S k)) (S n)) by (cbn; lia).
             rewrite (IH (S n) R). cbn [cut].
             replace (S k - n) with (S (S k - S n)) by lia. reflexivity.
        * now rewrite (IH (S n) I).
      + apply IH. exact Hn.
  Qed.

  (* ---- what the specification says in the two situations the fast paths serve ---- *)
  Lemma all_tags_spec fuel q x :
    is_none_crit (eff_string q) = true -> null (eff_attr_crits q) = true ->
    (q_name q = COne AtNone \/ q_name q = COne (AtBool true)) ->
    matches_spec fuel q x = is_tag h x.
  Proof.
    intros S0 A0 N0. unfold SearchSpec.matches_spec. rewrite S0.
    destruct (eff_attr_crits q); [|discriminate]. destruct (is_tag h x).
    - destruct N0 as [-> | ->]; reflexivity.
    - destruct N0 as [-> | ->]; reflexivity.
  Qed.

  Lemma name_only_spec fuel q x s :
    is_none_crit (eff_string q) = true -> null (eff_attr_crits q) = true -> q_name q = COne (AtStr s) ->
    matches_spec fuel q x = is_tag h x && item_name (AtStr s) x.
  Proof.
    intros S0 A0 N0. unfold SearchSpec.matches_spec, SearchSpec.name_ok. rewrite S0, N0.
    destruct (eff_attr_crits q); [|discriminate]. destruct (is_tag h x); [|reflexivity].
    cbn [is_none_crit negb orb andb items existsb forallb null]. now rewrite orb_false_r, !andb_true_r.
  Qed.

  (* ---- _find_all computes the documented result ---- *)
  Theorem find_all_refines fuel q L :
    query_ok q = true -> Forall (fun x => name_wf h xm x = true) L ->
    fst (find_all_m pat_sem fun_sem h xm fuel q L) = find_all_spec fuel q L.
  Proof.
    intros Q W. destruct (query_ok_parts q Q) as (Hn & Hs & Ha & Hd & _ & _).
    unfold find_all_m. rewrite (pop_text_eff q Hd), (mk_strainer_eff q Q).
    rewrite <- andb_assoc, (noattr_null q Q). unfold SearchSpec.find_all_spec.
    assert (GEN : is_none_crit (q_name q) && null (eff_attr_crits q) && is_none_crit (eff_string q) = false ->
                  fst (ef_find_all pat_sem fun_sem h xm fuel (spec_strainer q) (q_limit q) L 0) =
                  take_limit (q_limit q) (filter (matches_spec fuel q) L)).
    { intros NZ. rewrite ef_find_all_fst.
      - rewrite cut_zero. f_equal. apply filter_ext. intros x. now apply match_el_spec.
      - destruct (q_limit q) as [[|k]|]; cbn; auto with arith. }
    destruct (is_none_crit (eff_string q) && null (eff_attr_crits q)) eqn:FC.
    - apply andb_true_iff in FC as [S0 A0].
      assert (NZ : is_none_crit (q_name q) = false ->
                   is_none_crit (q_name q) && null (eff_attr_crits q) && is_none_crit (eff_string q) = false)
        by (intros ->; reflexivity).
      destruct (q_name q) as [a|l] eqn:Nm; [destruct a as [s|s|[|]|f|p| |]|]; try (apply GEN, NZ; reflexivity).
      + (* a plain name *)
        destruct (limit_falsy (q_limit q)) eqn:LF; [|apply GEN, NZ; reflexivity].
        cbn [fst ret]. assert (TL : forall l : list nat, take_limit (q_limit q) l = l)
          by (destruct (q_limit q) as [[|k]|]; cbn in LF; try discriminate; reflexivity).
        rewrite TL. apply filter_ext_in. intros x Hx.
        rewrite (name_only_spec fuel q x s S0 A0 Nm). f_equal.
        apply fast_name_match_spec. rewrite Forall_forall in W. now apply W.
      + (* True *)
        cbn [fst ret]. rewrite take_tags_spec by (destruct (q_limit q) as [[|k]|]; cbn; auto with arith).
        rewrite cut_zero. f_equal. apply filter_ext. intros x. symmetry. apply all_tags_spec; auto.
      + (* None *)
        cbn [fst ret]. rewrite take_tags_spec by (destruct (q_limit q) as [[|k]|]; cbn; auto with arith).
        rewrite cut_zero. f_equal. apply filter_ext. intros x. symmetry. apply all_tags_spec; auto.
    - apply GEN. destruct (is_none_crit (q_name q)), (null (eff_attr_crits q)), (is_none_crit (eff_string q));
        cbn in *; congruence.
  Qed.

  (* ---- limit = prefix, 0 = no limit, singular = first ---- *)
  Theorem limit_prefix fuel q L k :
    query_ok q = true -> Forall (fun x => name_wf h xm x = true) L ->
    fst (find_all_m pat_sem fun_sem h xm fuel (with_limit q (Some (S k))) L) =
    firstn (S k) (fst (find_all_m pat_sem fun_sem h xm fuel (with_limit q None) L)).
  Proof.
    intros Q W. rewrite !find_all_refines; try assumption; reflexivity.
  Qed.

  Theorem limit_zero_unlimited fuel q L :
    query_ok q = true -> Forall (fun x => name_wf h xm x = true) L ->
    fst (find_all_m pat_sem fun_sem h xm fuel (with_limit q (Some 0)) L) =
    fst (find_all_m pat_sem fun_sem h xm fuel (with_limit q None) L).
  Proof.
    intros Q W. rewrite !find_all_refines; try assumption; reflexivity.
  Qed.

  Lemma hd_firstn_1 {X} (l : list X) : hd_error (firstn 1 l) = hd_error l.
  Proof. destruct l; reflexivity. Qed.

  Theorem find_is_head fuel q L :
    query_ok q = true -> Forall (fun x => name_wf h xm x = true) L ->
    fst (find_one_m pat_sem fun_sem h xm fuel q L) =
    hd_error (filter (matches_spec fuel q) L).
  Proof.
    intros Q W. unfold find_one_m.
    pose proof (find_all_refines fuel (with_limit q (Some 1)) L Q W) as R.
    destruct (find_all_m pat_sem fun_sem h xm fuel (with_limit q (Some 1)) L) as [r lg]. cbn [fst] in *.
    rewrite R. unfold SearchSpec.find_all_spec. cbn [q_limit with_limit take_limit]. apply hd_firstn_1.
  Qed.

  (* ---- the call log of a function given as the name criterion ---- *)
  Definition name_calls (lg : log) : log :=
    filter (fun c => match fst (fst c) with SName => true | _ => false end) lg.

  Lemma name_calls_app a b : name_calls (a ++ b) = name_calls a ++ name_calls b.
  Proof. apply filter_app. Qed.

  Lemma nc_bind {A B} (m : M A) (f : A -> M B) :
    name_calls (snd (bind m f)) = name_calls (snd m) ++ name_calls (snd (f (fst m))).
  Proof. now rewrite snd_bind, name_calls_app. Qed.

  Lemma nc_any_m {X} (f : X -> M bool) l :
    (forall x, name_calls (snd (f x)) = []) -> name_calls (snd (any_m f l)) = [].
  Proof.
    intros H. induction l as [|x l IH]; cbn; [reflexivity|].
    rewrite nc_bind, H. destruct (fst (f x)); [reflexivity|exact IH].
  Qed.

  Lemma nc_all_m {X} (f : X -> M bool) l :
    (forall x, name_calls (snd (f x)) = []) -> name_calls (snd (all_m f l)) = [].
  Proof.
    intros H. induction l as [|x l IH]; cbn; [reflexivity|].
    rewrite nc_bind, H. destruct (fst (f x)); [exact IH|reflexivity].
  Qed.

  Lemma nc_matches_string st r v : st <> SName -> name_calls (snd (matches_string st r v)) = [].
  Proof.
    intros Hs. unfold Search.matches_string. destruct (base_match r (sv_text v)); [reflexivity|].
    destruct r; try reflexivity. destruct st; cbn; try reflexivity. exfalso. now apply Hs.
  Qed.

  Lemma nc_attribute_match rules v : name_calls (snd (attribute_match pat_sem fun_sem rules v)) = [].
  Proof.
    assert (MV : forall vals, name_calls (snd (match_values pat_sem fun_sem rules vals)) = []).
    { intros vals. unfold match_values. apply nc_any_m. intros r. apply nc_any_m. intros w.
      apply nc_matches_string. discriminate. }
    unfold attribute_match. rewrite nc_bind, MV. cbn [app].
    match goal with |- context [if ?c then _ else _] => destruct c end; [apply MV|reflexivity].
  Qed.

  Lemma nc_match_el fuel sr f x : s_name sr = [RFun f] ->
    name_calls (snd (match_el pat_sem fun_sem h xm fuel sr x)) =
    map (fun y => (SName, f, ArgEl y)) (filter (is_tag h) [x]).
  Proof.
    intros Hn. unfold match_el. cbn [filter]. destruct (is_tag h x); cbn [map].
    - unfold matches_tag. rewrite Hn. cbn [null andb]. rewrite andb_false_r. rewrite nc_bind.
      cbn [null any_m]. rewrite nc_bind. unfold rule_matches_tag at 1. cbn [Search.base_match snd fst].
      cbn [name_calls filter fst snd app].
      match goal with |- (name_calls (snd ?A) ++ name_calls (snd ?B)) ++ name_calls (snd ?C) = _ =>
        assert (Ea : name_calls (snd A) = [(SName, f, ArgEl x)]);
        [|assert (Eb : name_calls (snd B) = []); [|assert (Ec : name_calls (snd C) = [])]] end.
      + rewrite nc_bind. cbn [snd fst name_calls filter app].
        destruct (fun_sem f (ArgEl x)); [reflexivity|]. destruct (prefixed_of _ _); reflexivity.
      + match goal with |- context [if ?c then _ else _] => destruct c end; reflexivity.
      + match goal with |- context [if negb ?c then _ else _] => destruct c end; cbn [negb]; [|reflexivity].
        rewrite nc_bind. rewrite nc_all_m by (intros kr; apply nc_attribute_match). cbn [app].
        match goal with |- context [if negb ?c then _ else _] => destruct c end; cbn [negb]; [|reflexivity].
        destruct (null (s_string sr)) eqn:Ns; [reflexivity|].
        destruct (tag_string h fuel x); [|reflexivity].
        unfold matches_any_string_rule. rewrite Ns. apply nc_any_m. intros r. apply nc_matches_string. discriminate.
      + now rewrite Ea, Eb, Ec.
    - rewrite Hn. reflexivity.
  Qed.

  Lemma nc_ef_unlimited fuel sr f lim L : s_name sr = [RFun f] -> limit_falsy lim = true -> forall n,
    name_calls (snd (ef_find_all pat_sem fun_sem h xm fuel sr lim L n)) =
    map (fun y => (SName, f, ArgEl y)) (filter (is_tag h) L).
  Proof.
    intros Hn LF. assert (NH : forall m, limit_hit lim m = false) by (destruct lim as [[|k]|]; cbn in *; try discriminate; reflexivity).
    induction L as [|x L IH]; intros n; cbn [ef_find_all]; [reflexivity|].
    rewrite nc_bind, (nc_match_el fuel sr f x Hn).
    rewrite (filter_cons_app (is_tag h) x L).
    rewrite map_app. f_equal.
    destruct (fst (match_el pat_sem fun_sem h xm fuel sr x)).
    - rewrite NH, nc_bind. cbn [ret snd name_calls filter]. now rewrite app_nil_r.
    - apply IH.
  Qed.

  Lemma nc_ef_limited fuel sr f lim L : s_name sr = [RFun f] -> forall n, exists m,
    name_calls (snd (ef_find_all pat_sem fun_sem h xm fuel sr lim L n)) =
    map (fun y => (SName, f, ArgEl y)) (filter (is_tag h) (firstn m L)).
  Proof.
    intros Hn. assert (NN : name_calls [] = []) by reflexivity.
    induction L as [|x L IH]; intros n; cbn [ef_find_all].
    - exists 0. reflexivity.
    - destruct (fst (match_el pat_sem fun_sem h xm fuel sr x)) eqn:E.
      + destruct (limit_hit lim (S n)) eqn:LH.
        * exists 1. rewrite nc_bind, (nc_match_el fuel sr f x Hn), E. cbn beta iota.
          cbn [ret snd firstn]. now rewrite NN, app_nil_r.
        * destruct (IH (S n)) as [m Hm]. exists (S m).
          rewrite nc_bind, (nc_match_el fuel sr f x Hn), E. cbn beta iota. rewrite nc_bind, Hm.
          cbn [ret snd firstn]. rewrite NN, app_nil_r.
          rewrite (filter_cons_app (is_tag h) x (firstn m L)). now rewrite map_app.
      + destruct (IH n) as [m Hm]. exists (S m).
        rewrite nc_bind, (nc_match_el fuel sr f x Hn), E. cbn beta iota. rewrite Hm. cbn [firstn].
        rewrite (filter_cons_app (is_tag h) x (firstn m L)). now rewrite map_app.
  Qed.

  Lemma mk_strainer_name n a s k : s_name (mk_strainer n a s k) = make_rules n.
  Proof. unfold mk_strainer. destruct (pop_text s k). reflexivity. Qed.

  Lemma find_all_fun_general fuel q L f : q_name q = COne (AtFun f) ->
    exists sr, s_name sr = [RFun f] /\
    find_all_m pat_sem fun_sem h xm fuel q L = ef_find_all pat_sem fun_sem h xm fuel sr (q_limit q) L 0.
  Proof.
    intros Nm. unfold find_all_m. destruct (pop_text (q_string q) (q_kwargs q)) as [string kwargs].
    exists (mk_strainer (q_name q) (q_attrs q) string kwargs). split.
    - rewrite mk_strainer_name, Nm. reflexivity.
    - rewrite Nm. destruct (is_none_crit string && attrs_falsy (q_attrs q) && null kwargs); reflexivity.
  Qed.

  (* a function given as the name criterion is called exactly once per tag of the axis, in axis
     order, with the Tag itself (whatever the other criteria are) *)
  Theorem fun_called_once_with_tag fuel q L f :
    q_name q = COne (AtFun f) -> limit_falsy (q_limit q) = true ->
    name_calls (snd (find_all_m pat_sem fun_sem h xm fuel q L)) =
    map (fun y => (SName, f, ArgEl y)) (filter (is_tag h) L).
  Proof.
    intros Nm LF. destruct (find_all_fun_general fuel q L f Nm) as (sr & Hs & ->).
    now apply nc_ef_unlimited.
  Qed.

  (* with a limit (and for the singular methods) the search stops early: the same calls for a
     prefix of the axis *)
  Theorem fun_called_once_prefix fuel q L f :
    q_name q = COne (AtFun f) -> exists m,
    name_calls (snd (find_all_m pat_sem fun_sem h xm fuel q L)) =
    map (fun y => (SName, f, ArgEl y)) (filter (is_tag h) (firstn m L)).
  Proof.
    intros Nm. destruct (find_all_fun_general fuel q L f Nm) as (sr & Hs & ->).
    now apply nc_ef_limited.
  Qed.
End Proofs.
