(* C09 — the real text reader (Model/TextReaderReal.v) against the idealised one (Base/Reader.v). *)
From Coq Require Import List NArith Bool Arith Lia.
From BS Require Import Base.Sexp Base.Types Base.Reader Gen.Entities Gen.T_C09
     Model.SmartQuotes Model.EntitySubst Model.TextReaderReal Spec.EntitiesSpec
     Proofs.EntitiesTables Proofs.EntitiesProofs Proofs.EntitiesAttrProofs Proofs.EntitiesIff.
Import ListNotations.
Open Scope N_scope.

(* as long as the tokenizer never stands at a "&#" that is not a reference, the two readers agree - whatever the
   pass and whatever follows the text *)
Theorem real_is_ideal : forall t st p K,
  never_bad st t = true -> real_from st p t K = (read_from ent_text num_text st t, Goes p).
Proof.
  induction t as [|c t IH]; intros st p K H; cbn [never_bad] in H.
  - cbn [real_from read_from]. apply negb_true_iff in H. now rewrite H.
  - apply andb_prop in H as [H1 H2]. apply negb_true_iff in H1.
    cbn [real_from read_from]. rewrite H1. cbn [andb].
    destruct (step ent_text num_text st c) as [st' o] eqn:Es. cbn [fst] in H2.
    rewrite (IH st' (p || false) K H2). now rewrite orb_false_r.
Qed.

(* ---- escaped text ('minimal', 'html') never puts the tokenizer there ---- *)
Lemma never_bad_plain c t : c <> c_amp -> never_bad Idle (c :: t) = never_bad Idle t.
Proof.
  intros H. cbn [never_bad bad_hash negb andb step]. unfold idle_step. apply N.eqb_neq in H. now rewrite H.
Qed.

Lemma never_bad_plain_run w t : ~ In c_amp w -> never_bad Idle (w ++ t) = never_bad Idle t.
Proof.
  induction w as [|c w IH]; intros H; [reflexivity|]. cbn [app].
  rewrite never_bad_plain; [|intros ->; apply H; now left]. apply IH. intros Hi. apply H. now right.
Qed.

Lemma never_bad_named w : forall acc t,
  forallb is_namechar w = true -> never_bad (Named acc) (w ++ c_semi :: t) = never_bad Idle t.
Proof.
  induction w as [|c w IH]; intros acc t Hw.
  - reflexivity.
  - cbn in Hw. apply andb_prop in Hw as [Hc Hw]. cbn [app never_bad bad_hash negb andb step]. rewrite Hc.
    cbn [fst]. now apply IH.
Qed.

Lemma never_bad_ref name t : good_name name = true -> never_bad Amp (name ++ c_semi :: t) = never_bad Idle t.
Proof.
  intros Hg. destruct (good_name_parts name Hg) as (a & tl & -> & Ha & Ht & _).
  cbn [app never_bad bad_hash negb andb step]. rewrite (alpha_not_hash a Ha), Ha. cbn [fst].
  apply never_bad_named. rewrite forallb_forall in *. intros x Hx. apply alnum_namechar. now apply Ht.
Qed.

Lemma never_bad_amp_idle t : never_bad Idle (c_amp :: t) = never_bad Amp t.
Proof. reflexivity. Qed.

Theorem enc_never_bad o s : enc o s -> never_bad Idle o = true.
Proof.
  induction 1 as [|c o s Hc _ IH|name seq o s [Hg _] _ IH].
  - reflexivity.
  - now rewrite never_bad_plain.
  - now rewrite never_bad_amp_idle, never_bad_ref.
Qed.

(* hence, for every string, the real parser reads back what 'minimal' and 'html' wrote: the idealisation of
   Base/Reader.v is unobservable on their image *)
Theorem real_reads_escaped o s p K : enc o s -> real_read_text p o K = (s, Goes p).
Proof.
  intros H. unfold real_read_text. rewrite (real_is_ideal o Idle p K (enc_never_bad o s H)).
  f_equal. now apply enc_read_text.
Qed.

(* ---- 'html5': the naming pass does not change whether the tokenizer gets there ---- *)
Lemma bad_hash_inert st c : inert c = true -> bad_hash st c = bad_hash st c_amp.
Proof.
  intros H. destruct (inert_facts c H) as (H1 & H2 & H3 & H4 & H5 & H6 & H7 & H8 & H9).
  destruct st; cbn [bad_hash]; rewrite ?H5, ?H7, ?H8, ?H9; reflexivity.
Qed.

Lemma html5_pass_never_bad_n : forall n t st,
  (length t <= n)%nat -> never_bad st (sub_particles html_particles O t) = never_bad st t.
Proof.
  induction n as [|n IH]; intros t st Hl.
  - destruct t; [reflexivity | cbn in Hl; lia].
  - destruct t as [|c t']; [reflexivity|].
    destruct (pass_cases html_particles particles_entity_tbl c t')
      as [(p & h & tl & name & rest & Hf & Hp & Hs & Hk & Ho & Hlt)|[Hf Ho]].
    + rewrite Ho, Hs. apply find_particle_some in Hf as [Hi _].
      pose proof particles_inert_tbl as Hin. rewrite forallb_forall in Hin.
      destruct (particle_inert_spec p (Hin p Hi)) as (h' & tl' & Hp' & Hh & Htl).
      rewrite Hp' in *. destruct Hk as [Hg _].
      change ((c_amp :: name ++ [c_semi]) ++ sub_particles html_particles 0 rest)
        with (c_amp :: (name ++ [c_semi]) ++ sub_particles html_particles 0 rest).
      rewrite <- app_assoc. cbn [app never_bad].
      rewrite (bad_hash_inert st h' Hh). f_equal.
      rewrite step_amp, (step_inert _ _ st h' Hh). cbn [fst].
      rewrite (never_bad_ref name _ Hg), (never_bad_plain_run tl' rest Htl). apply IH. lia.
    + rewrite Ho. cbn [never_bad]. f_equal. apply IH. cbn in Hl. lia.
Qed.

Theorem html5_pass_never_bad t : never_bad Idle (sub_particles html_particles O t) = never_bad Idle t.
Proof. now apply html5_pass_never_bad_n with (n := length t). Qed.


Theorem real_reads_html5 s p K :
  no_stray_hash s = true ->
  real_read_text p (substitute_html5 s) K = (read_text (substitute_html5 s), Goes p).
Proof.
  intros H. unfold real_read_text, substitute_html5, read_text, read.
  apply real_is_ideal. now rewrite html5_pass_never_bad.
Qed.

(* with both conditions the real parser reads the original back; and among the strings without stray "&#" exactly
   those without a bare reference *)
Theorem real_html5_roundtrip_iff s p K :
  no_stray_hash s = true ->
  (real_read_text p (substitute_html5 s) K = (s, Goes p) <-> no_bare_ref s = true).
Proof.
  intros H. rewrite (real_reads_html5 s p K H). rewrite <- html5_text_roundtrip_iff. split.
  - intros E. injection E as E1. exact E1.
  - intros ->. reflexivity.
Qed.

(* the idealisation IS observable on the image of 'html5': "&#" is written as it is, and the real parser then
   takes the closing tag for text (while the idealised reader reads "&#") *)
Definition stray_witness : str := [c_amp; c_hash].

Theorem real_html5_observable :
  no_bare_ref stray_witness = true /\ read_text (substitute_html5 stray_witness) = stray_witness /\
  real_read_text false (substitute_html5 stray_witness) k_pre = (stray_witness ++ k_pre, Stopped).
Proof. repeat split; vm_compute; reflexivity. Qed.

Theorem minimal_html_real_text s p K :
  (exists o, substitute_xml s false = Some o /\ real_read_text p o K = (s, Goes p)) /\
  real_read_text p (substitute_html s) K = (s, Goes p).
Proof.
  split.
  - destruct (minimal_escaped s) as (o & Ho & He & _). exists o. split; [assumption | now apply real_reads_escaped].
  - apply real_reads_escaped, html_enc.
Qed.
