(* C01 / C02 — unconditional frame facts about [extract] and [insert1]: which fields of which cells
   they write.  They hold for every heap.  (Groundwork for Proofs/EditBase.v and Proofs/EditRep.v.) *)
From Coq Require Import List Arith Bool Lia Permutation.
From BS Require Import Base.Sexp Model.Heap Spec.Tree Proofs.HeapBasics Proofs.InsertRep.
Import ListNotations.

(* ------------------------------------------------------------------------------------------ *)
(* 0. frame facts                                                                             *)
(* ------------------------------------------------------------------------------------------ *)

(* the fields no re-linking operation writes *)
Definition meta (c : cell) : nkind * str * bool := (kind c, txt c, dead c).

Ltac setter0 := intros; unfold meta, set_par, set_kids, set_ps, set_ns, set_pe, set_ne, upd;
               destruct (Nat.eqb _ _) eqn:E; [apply Nat.eqb_eq in E; subst|]; reflexivity.
Lemma meta_set_par h x v y : meta (set_par h x v y) = meta (h y). Proof. setter0. Qed.
Lemma meta_set_kids h x v y : meta (set_kids h x v y) = meta (h y). Proof. setter0. Qed.
Lemma meta_set_ps h x v y : meta (set_ps h x v y) = meta (h y). Proof. setter0. Qed.
Lemma meta_set_ns h x v y : meta (set_ns h x v y) = meta (h y). Proof. setter0. Qed.
Lemma meta_set_pe h x v y : meta (set_pe h x v y) = meta (h y). Proof. setter0. Qed.
Lemma meta_set_ne h x v y : meta (set_ne h x v y) = meta (h y). Proof. setter0. Qed.
Global Hint Rewrite meta_set_par meta_set_kids meta_set_ps meta_set_ns meta_set_pe meta_set_ne : heap.

Lemma meta_kind c c' : meta c' = meta c -> kind c' = kind c.
Proof. unfold meta. congruence. Qed.
Lemma meta_dead c c' : meta c' = meta c -> dead c' = dead c.
Proof. unfold meta. congruence. Qed.
Lemma meta_txt c c' : meta c' = meta c -> txt c' = txt c.
Proof. unfold meta. congruence. Qed.

Ltac brk := repeat match goal with
  | |- context [match ?e with Some _ => _ | None => _ end] => destruct e
  | |- context [if ?b then _ else _] => destruct b
  end.

(* extract_links with the result of _last_descendant abstracted *)
Definition xl (h : heap) (x last_child : nat) : heap :=
  let next_element := ne (h last_child) in
  let h :=
    match pe (h x) with
    | Some q => if negb (oeqb (Some q) next_element) then set_ne h q next_element else h
    | None => h
    end in
  let h :=
    match next_element with
    | Some r => if negb (oeqb (Some r) (pe (h x))) then set_pe h r (pe (h x)) else h
    | None => h
    end in
  let h := set_pe h x None in
  let h := set_ne h last_child None in
  let h := set_par h x None in
  let h :=
    match ps (h x) with
    | Some a => if negb (oeqb (Some a) (ns (h x))) then set_ns h a (ns (h x)) else h
    | None => h
    end in
  let h :=
    match ns (h x) with
    | Some b => if negb (oeqb (Some b) (ps (h x))) then set_ps h b (ps (h x)) else h
    | None => h
    end in
  let h := set_ps h x None in
  set_ns h x None.

Lemma extract_links_xl fuel h x :
  extract_links fuel h x = xl h x (match last_descendant fuel h x true true with Some l => l | None => x end).
Proof. reflexivity. Qed.

Lemma xl_meta h x l y : meta (xl h x l y) = meta (h y).
Proof. unfold xl. cbv zeta. brk; autorewrite with heap; reflexivity. Qed.
Lemma xl_kids h x l y : kids (xl h x l y) = kids (h y).
Proof. unfold xl. cbv zeta. brk; autorewrite with heap; reflexivity. Qed.
Lemma xl_par h x l y : y <> x -> par (xl h x l y) = par (h y).
Proof.
  intros N. apply Nat.eqb_neq in N. unfold xl. cbv zeta.
  brk; autorewrite with heap; rewrite ?N; reflexivity.
Qed.

Lemma extract_links_meta fuel h x y : meta (extract_links fuel h x y) = meta (h y).
Proof. rewrite extract_links_xl. apply xl_meta. Qed.
Lemma extract_links_kids fuel h x y : kids (extract_links fuel h x y) = kids (h y).
Proof. rewrite extract_links_xl. apply xl_kids. Qed.
Lemma extract_links_par fuel h x y : y <> x -> par (extract_links fuel h x y) = par (h y).
Proof. rewrite extract_links_xl. apply xl_par. Qed.

Lemma extract_meta fuel h x y : meta (extract fuel h x y) = meta (h y).
Proof. unfold extract. rewrite extract_links_meta. brk; autorewrite with heap; reflexivity. Qed.

Lemma extract_par_other fuel h x y : y <> x -> par (extract fuel h x y) = par (h y).
Proof. intros N. unfold extract. rewrite extract_links_par by exact N. brk; autorewrite with heap; reflexivity. Qed.

Lemma extract_par_self fuel h x : par (extract fuel h x x) = None.
Proof. apply (extract_detached fuel h x). Qed.

Lemma extract_kids fuel h x y :
  kids (extract fuel h x y) =
  match par (h x) with
  | Some p => match index_of x (kids (h p)) with
              | Some i => if Nat.eqb y p then remove_at i (kids (h p)) else kids (h y)
              | None => kids (h y)
              end
  | None => kids (h y)
  end.
Proof.
  unfold extract. rewrite extract_links_kids.
  destruct (par (h x)) as [p|]; [|reflexivity].
  destruct (index_of x (kids (h p))) as [i|]; [|reflexivity].
  apply InsertRep.kids_set_kids_if.
Qed.

(* the part of _insert after the "already somewhere?" test *)
Definition ins_tail (fuel : nat) (h : heap) (self position nc : nat) : heap :=
  let h := set_par h nc (Some self) in
  let h :=
    match position with
    | O => let h := set_ps h nc None in set_pe h nc (Some self)
    | S pm =>
        let previous_child := nth pm (kids (h self)) 0 in
        let h := set_ps h nc (Some previous_child) in
        let h := set_ns h previous_child (Some nc) in
        set_pe h nc (last_descendant fuel h previous_child false true)
    end in
  let h := match pe (h nc) with Some q => set_ne h q (Some nc) | None => h end in
  let last := match last_descendant fuel h nc false true with Some l => l | None => nc end in
  let h :=
    if Nat.leb (length (kids (h self))) position then
      let h := set_ns h nc None in
      set_ne h last (parents_next_sibling fuel h self)
    else
      let next_child := nth position (kids (h self)) 0 in
      let h := set_ns h nc (Some next_child) in
      let h := set_ps h next_child (Some nc) in
      set_ne h last (Some next_child)
  in
  let h := match ne (h last) with Some r => set_pe h r (Some last) | None => h end in
  set_kids h self (insert_at position nc (kids (h self))).

Lemma insert1_eq fuel h self position nc :
  insert1 fuel h self position nc =
  if Nat.eqb nc self then None else
  let pos := Nat.min position (length (kids (h self))) in
  match par (h nc) with
  | Some p =>
      if Nat.eqb p self then
        match index_of nc (kids (h self)) with
        | Some cur =>
            if Nat.ltb cur pos then Some (ins_tail fuel (extract fuel h nc) self (pred pos) nc)
            else if Nat.eqb cur pos then Some h
            else Some (ins_tail fuel (extract fuel h nc) self pos nc)
        | None => Some (ins_tail fuel (extract fuel h nc) self pos nc)
        end
      else Some (ins_tail fuel (extract fuel h nc) self pos nc)
  | None => Some (ins_tail fuel h self pos nc)
  end.
Proof.
  unfold insert1. destruct (Nat.eqb nc self); [reflexivity|]. cbv zeta.
  destruct (par (h nc)) as [p|]; [|reflexivity].
  destruct (Nat.eqb p self); [|reflexivity].
  destruct (index_of nc (kids (h self))) as [cur|]; [|reflexivity].
  destruct (Nat.ltb cur _); [reflexivity|].
  destruct (Nat.eqb cur _); reflexivity.
Qed.

(* insert1 of a parentless element is the tail, at the clipped position *)
Lemma insert1_root fuel h self pos nc :
  nc <> self -> par (h nc) = None -> pos <= length (kids (h self)) ->
  insert1 fuel h self pos nc = Some (ins_tail fuel h self pos nc).
Proof.
  intros N P L. rewrite insert1_eq. apply Nat.eqb_neq in N. rewrite N, P. cbv zeta.
  now rewrite Nat.min_l by exact L.
Qed.

Ltac brk3 := repeat match goal with
  | |- context [match ?e with Some _ => _ | None => _ end] => destruct e
  | |- context [if ?b then _ else _] => destruct b
  | |- context [match ?e with O => _ | S _ => _ end] => destruct e
  end.

Lemma ins_tail_meta fuel h self pos nc y : meta (ins_tail fuel h self pos nc y) = meta (h y).
Proof. unfold ins_tail. cbv zeta. brk3; autorewrite with heap; reflexivity. Qed.

Lemma ins_tail_par_other fuel h self pos nc y : y <> nc -> par (ins_tail fuel h self pos nc y) = par (h y).
Proof.
  intros N. apply Nat.eqb_neq in N. unfold ins_tail. cbv zeta.
  brk3; autorewrite with heap; rewrite ?N; reflexivity.
Qed.

Lemma ins_tail_par_self fuel h self pos nc : par (ins_tail fuel h self pos nc nc) = Some self.
Proof. unfold ins_tail. cbv zeta. brk3; autorewrite with heap; reflexivity. Qed.

Lemma ins_tail_kids fuel h self pos nc y :
  kids (ins_tail fuel h self pos nc y) = if Nat.eqb y self then insert_at pos nc (kids (h self)) else kids (h y).
Proof.
  unfold ins_tail. cbv zeta. rewrite InsertRep.kids_set_kids_if.
  destruct (Nat.eqb y self); brk3; autorewrite with heap; reflexivity.
Qed.
