(* C13 — proofs: the text-extraction model (Model/Text.v, which walks the next_element chain)
   computes what the recursive evaluator over the children lists (Spec/TextSpec.v) prescribes,
   for every heap that represents a tree (Spec/Tree.v [rep1]), every element, every form of the
   strip / types arguments and every class payload. *)
From Coq Require Import List NArith Bool Arith Lia.
From BS Require Import Base.Sexp Base.Types Gen.Stdlib Gen.T_C13 Model.Heap Model.Iter Model.Text
     Spec.Tree Spec.TextSpec Proofs.Views.
Import ListNotations.
Local Open Scope nat_scope.

(* ------------------------------------------------------------------ str.strip() *)
Local Arguments py_space : simpl never.
Local Arguments ws : simpl never.
Lemma lstrip_app_ws l x : forallb py_space l = true -> lstrip (l ++ x) = lstrip x.
Proof.
  induction l as [|a l IH]; cbn; [reflexivity|].
  intros H. apply andb_prop in H as [Ha Hl]. rewrite Ha. now apply IH.
Qed.

Lemma lstrip_all_ws l : forallb py_space l = true -> lstrip l = [].
Proof. intros H. rewrite <- (app_nil_r l). rewrite lstrip_app_ws by exact H. reflexivity. Qed.

Definition head_not_ws (t : str) : Prop :=
  match t with [] => True | a :: _ => py_space a = false end.

Lemma lstrip_fix t : head_not_ws t -> lstrip t = t.
Proof. destruct t as [|a t]; cbn; [reflexivity|]. intros ->. reflexivity. Qed.

Lemma lstrip_decomp s : exists l, s = l ++ lstrip s /\ forallb py_space l = true /\ head_not_ws (lstrip s).
Proof.
  induction s as [|a s (l & E & Hl & Hh)]; [exists []; cbn; auto|].
  cbn [lstrip]. destruct (py_space a) eqn:Ha.
  - exists (a :: l). cbn. rewrite Ha, Hl. split; [f_equal; exact E|auto].
  - exists []. cbn. rewrite Ha. auto.
Qed.

Lemma rev_last_cons (t : str) d : t <> [] -> rev t = last t d :: rev (removelast t).
Proof.
  intros H. rewrite (app_removelast_last d H) at 1. rewrite rev_app_distr. reflexivity.
Qed.

Lemma last_rev_cons (b : N) (u : str) d : last (rev (b :: u)) d = b.
Proof. cbn [rev]. apply last_last. Qed.

Lemma forallb_rev {X} (f : X -> bool) l : forallb f (rev l) = forallb f l.
Proof.
  induction l as [|a l IH]; cbn; [reflexivity|].
  rewrite forallb_app, IH. cbn. rewrite andb_true_r. apply andb_comm.
Qed.

(* what strip returns is the input without a whitespace prefix and suffix, and has clean ends *)
Theorem py_strip_trimmed : forall s, trimmed s (py_strip s).
Proof.
  intros s. unfold py_strip, rstrip.
  destruct (lstrip_decomp s) as (l & E & Hl & Hh).
  remember (lstrip s) as s1 eqn:Es1.
  destruct (lstrip_decomp (rev s1)) as (r' & E' & Hr' & Hh').
  remember (lstrip (rev s1)) as u eqn:Eu.
  exists l, (rev r'). repeat split.
  - rewrite E at 1. f_equal. rewrite <- (rev_involutive s1), E', rev_app_distr. reflexivity.
  - exact Hl.
  - rewrite forallb_rev. exact Hr'.
  - (* ends of rev u *)
    destruct u as [|b u']; [cbn; exact I|].
    assert (Hs1 : s1 = rev (b :: u') ++ rev r').
    { rewrite <- (rev_involutive s1), E', rev_app_distr. reflexivity. }
    cbn in Hh'.
    destruct (rev (b :: u')) as [|a t'] eqn:Er.
    + apply (f_equal (@length N)) in Er. rewrite rev_length in Er. discriminate.
    + unfold no_ws_ends. split.
      * rewrite Hs1 in Hh. cbn in Hh. exact Hh.
      * rewrite <- Er. rewrite last_rev_cons. exact Hh'.
Qed.

(* ... and it is the only such string *)
Theorem trimmed_unique : forall s t, trimmed s t -> t = py_strip s.
Proof.
  intros s t (l & r & E & Hl & Hr & Hends). subst s.
  unfold py_strip. rewrite lstrip_app_ws by exact Hl.
  destruct t as [|a t'].
  - cbn [app]. rewrite lstrip_all_ws by exact Hr. reflexivity.
  - destruct Hends as (Ha & Hlast).
    rewrite lstrip_fix by (cbn; exact Ha).
    unfold rstrip. rewrite rev_app_distr.
    rewrite lstrip_app_ws by (rewrite forallb_rev; exact Hr).
    rewrite (rev_last_cons (a :: t') a) by discriminate.
    rewrite lstrip_fix by (cbn; exact Hlast).
    rewrite <- (rev_last_cons (a :: t') a) by discriminate.
    symmetry. apply rev_involutive.
Qed.

Corollary py_strip_idempotent : forall s, py_strip (py_strip s) = py_strip s.
Proof.
  intros s. symmetry. apply trimmed_unique.
  destruct (py_strip_trimmed s) as (_ & _ & _ & _ & _ & Hends).
  exists [], []. rewrite app_nil_r. cbn. auto.
Qed.

Corollary py_strip_all_ws : forall s, forallb py_space s = true -> py_strip s = [].
Proof.
  intros s H. symmetry. apply trimmed_unique. exists s, []. cbn. rewrite app_nil_r. auto.
Qed.

Corollary py_strip_clean : forall t, no_ws_ends t -> py_strip t = t.
Proof.
  intros t H. symmetry. apply trimmed_unique. exists [], []. rewrite app_nil_r. cbn. auto.
Qed.

(* ------------------------------------------------------------------ join *)
Lemma join_cons2 sep a b l : join sep (a :: b :: l) = a ++ sep ++ join sep (b :: l).
Proof. reflexivity. Qed.

Theorem join_is_spec : forall sep l, join sep l = join_spec sep l.
Proof.
  intros sep l. unfold join_spec. induction l as [|a l IH]; [reflexivity|].
  destruct l as [|b l'].
  - cbn. now rewrite app_nil_r.
  - rewrite join_cons2, IH. reflexivity.
Qed.

Theorem join_empty_sep : forall l, join [] l = concat l.
Proof.
  induction l as [|a l IH]; [reflexivity|].
  destruct l as [|b l']; [cbn; now rewrite app_nil_r|].
  rewrite join_cons2, IH. reflexivity.
Qed.

Theorem join_app : forall sep l1 l2, l1 <> [] -> l2 <> [] ->
  join sep (l1 ++ l2) = join sep l1 ++ sep ++ join sep l2.
Proof.
  intros sep l1. induction l1 as [|a l1 IH]; intros l2 H1 H2; [congruence|].
  destruct l1 as [|b l1'].
  - destruct l2 as [|c l2']; [congruence|]. reflexivity.
  - cbn [app]. rewrite !join_cons2. rewrite <- !app_assoc. do 2 f_equal.
    apply (IH l2); [discriminate|exact H2].
Qed.

Theorem get_text_joins : forall h p fuel x sep strip types,
  get_text fuel h p x sep strip types =
  join_spec sep (map snd (all_strings fuel h p x strip types)).
Proof. intros. unfold get_text. apply join_is_spec. Qed.

(* ------------------------------------------------------------------ flat_map over a pre-order *)
Lemma flat_map_flat_map {X Y Z} (f : Y -> list Z) (g : X -> list Y) l :
  flat_map f (flat_map g l) = flat_map (fun x => flat_map f (g x)) l.
Proof. induction l as [|a l IH]; cbn; [reflexivity|]. rewrite flat_map_app, IH. reflexivity. Qed.

Lemma flat_map_ext' {X Y} (f g : X -> list Y) l : (forall x, f x = g x) -> flat_map f l = flat_map g l.
Proof. intros H. induction l as [|a l IH]; cbn; [reflexivity|]. now rewrite H, IH. Qed.

Lemma flat_map_Forall_ext {X Y} (f g : X -> list Y) l : Forall (fun x => f x = g x) l -> flat_map f l = flat_map g l.
Proof. induction 1 as [|a l Ha _ IH]; cbn; [reflexivity|]. now rewrite Ha, IH. Qed.

Section Refine.
  Variables (h : heap) (p : tpay).
  Let isstr (x : nat) : bool := negb (is_tag h x).
  Let cls := t_cls p.
  Let text (x : nat) : str := txt (h x).

  (* one step of the loop = one node of the evaluator *)
  Lemma visit_is_node strip types d :
    tag_visit h p strip types d =
    (if isstr d && type_selected types (cls d)
     then map (fun s => (d, s)) (shown py_strip strip (text d)) else []).
  Proof.
    unfold tag_visit, isstr, cls, text, tag_emit, shown.
    destruct (is_tag h d); cbn; [reflexivity|].
    destruct (type_selected types (t_cls p d)); [|reflexivity].
    destruct strip; [|reflexivity].
    destruct (py_strip (txt (h d))); reflexivity.
  Qed.

  Lemma visit_pre_texts strip types : forall t,
    flat_map (tag_visit h p strip types) (pre t) =
    texts isstr cls text (type_selected types) py_strip strip t.
  Proof.
    induction t as [i ks IH] using tree_ind'.
    cbn [pre texts flat_map]. rewrite visit_is_node. f_equal.
    rewrite flat_map_flat_map. apply flat_map_Forall_ext. exact IH.
  Qed.

  Lemma visit_pres_texts strip types ks :
    flat_map (tag_visit h p strip types) (pres ks) =
    flat_map (texts isstr cls text (type_selected types) py_strip strip) ks.
  Proof.
    unfold pres. rewrite flat_map_flat_map. apply flat_map_ext'. intros t. apply visit_pre_texts.
  Qed.

  (* Tag._all_strings over the chain = the recursive evaluator over the children lists *)
  Theorem tag_strings_refine : forall T linked t fuel strip types,
    rep1 h T linked -> In t (subterms T) -> length (pre T) <= fuel ->
    tag_all_strings fuel h p (rid t) strip types =
    texts_below isstr cls text (type_selected (tag_types p (rid t) types)) py_strip strip t.
  Proof.
    intros T linked t fuel strip types Hrep Hin Hfuel.
    unfold tag_all_strings, texts_below.
    rewrite (descendants_spec' h T linked t fuel Hrep Hin Hfuel), tl_pre.
    apply visit_pres_texts.
  Qed.

  (* the same with a filter over the pre-order: exactly the counted strings, in document order,
     each with its own text *)
  Lemma visit_filter types L :
    flat_map (tag_visit h p false types) L =
    map (fun d => (d, text d)) (filter (fun d => isstr d && type_selected types (cls d)) L).
  Proof.
    induction L as [|d L IH]; [reflexivity|].
    cbn [flat_map filter]. rewrite visit_is_node, IH.
    destruct (isstr d && type_selected types (cls d)); reflexivity.
  Qed.

  Theorem tag_strings_exact : forall T linked t fuel types,
    rep1 h T linked -> In t (subterms T) -> length (pre T) <= fuel ->
    tag_all_strings fuel h p (rid t) false types =
    map (fun d => (d, text d))
        (counted isstr cls (type_selected (tag_types p (rid t) types)) t).
  Proof.
    intros T linked t fuel types Hrep Hin Hfuel.
    unfold tag_all_strings, counted.
    rewrite (descendants_spec' h T linked t fuel Hrep Hin Hfuel).
    apply visit_filter.
  Qed.

  (* strip = trim every piece and drop the ones that become empty; nothing else changes *)
  Definition strip_piece (ds : nat * str) : list (nat * str) :=
    match py_strip (snd ds) with [] => [] | s => [(fst ds, s)] end.

  Lemma visit_strip types d :
    tag_visit h p true types d = flat_map strip_piece (tag_visit h p false types d).
  Proof.
    unfold tag_visit, tag_emit, strip_piece.
    destruct (is_tag h d); [reflexivity|].
    destruct (type_selected types (t_cls p d)); [|reflexivity].
    cbn [flat_map fst snd]. destruct (py_strip (txt (h d))); reflexivity.
  Qed.

  Theorem tag_strings_strip : forall fuel x types,
    tag_all_strings fuel h p x true types = flat_map strip_piece (tag_all_strings fuel h p x false types).
  Proof.
    intros fuel x types. unfold tag_all_strings.
    rewrite flat_map_flat_map. apply flat_map_ext'. intros d. apply visit_strip.
  Qed.

  (* whatever the heap looks like, only strings of a selected class are ever yielded *)
  Theorem tag_strings_only_selected : forall fuel x strip types d s,
    In (d, s) (tag_all_strings fuel h p x strip types) ->
    is_tag h d = false /\ type_selected (tag_types p x types) (cls d) = true.
  Proof.
    intros fuel x strip types d s Hin. unfold tag_all_strings in Hin.
    apply in_flat_map in Hin. destruct Hin as (d' & _ & Hin).
    unfold tag_visit in Hin.
    destruct (is_tag h d') eqn:Et; [destruct Hin|].
    destruct (type_selected (tag_types p x types) (t_cls p d')) eqn:Es; [|destruct Hin].
    unfold tag_emit in Hin.
    assert (d = d').
    { destruct strip.
      - destruct (is_empty (py_strip (txt (h d')))); [destruct Hin|].
        destruct Hin as [E|[]]. congruence.
      - destruct Hin as [E|[]]. congruence. }
    subst d'. split; assumption.
  Qed.

  (* ---- the forms of the types argument ---- *)
  Lemma selected_one_many c : forall c', type_selected (TyOne c) c' = type_selected (TyMany [c]) c'.
  Proof. intros c'. cbn. now rewrite orb_false_r. Qed.

  Lemma tag_strings_ext fuel x strip ty1 ty2 :
    (forall c, type_selected (tag_types p x ty1) c = type_selected (tag_types p x ty2) c) ->
    tag_all_strings fuel h p x strip ty1 = tag_all_strings fuel h p x strip ty2.
  Proof.
    intros H. unfold tag_all_strings. apply flat_map_ext'. intros d.
    unfold tag_visit. now rewrite H.
  Qed.

  Theorem single_class_is_singleton : forall fuel x strip c,
    all_strings fuel h p x strip (TyOne c) = all_strings fuel h p x strip (TyMany [c]).
  Proof.
    intros fuel x strip c. unfold all_strings. destruct (is_tag h x).
    - apply tag_strings_ext. intros c'. apply selected_one_many.
    - unfold str_all_strings. cbn [str_types]. now rewrite selected_one_many.
  Qed.

  (* no argument = the element's own set; {ordinary text, CDATA} when it has none *)
  Theorem default_is_own_set : forall fuel x strip,
    is_tag h x = true ->
    all_strings fuel h p x strip TyDefault =
    all_strings fuel h p x strip (TyMany (own_set (t_ist p x))).
  Proof.
    intros fuel x strip Ht. unfold all_strings. rewrite Ht.
    apply tag_strings_ext. intros c. cbn [tag_types]. unfold own_set.
    destruct (t_ist p x); reflexivity.
  Qed.

  Theorem default_on_string : forall fuel x strip,
    is_tag h x = false ->
    all_strings fuel h p x strip TyDefault = all_strings fuel h p x strip (TyMany ordinary_text_classes).
  Proof. intros fuel x strip Ht. unfold all_strings. rewrite Ht. reflexivity. Qed.

  (* an ordinary element never yields a comment, doctype, declaration, processing instruction or
     any container class: only classes 0 and 1 *)
  Theorem ordinary_element_only_text_and_cdata : forall fuel x strip d s,
    t_ist p x = None \/ t_ist p x = Some ordinary_text_classes ->
    In (d, s) (tag_all_strings fuel h p x strip TyDefault) ->
    cls d = 0%N \/ cls d = 1%N.
  Proof.
    intros fuel x strip d s Hist Hin.
    apply tag_strings_only_selected in Hin. destruct Hin as (_ & Hsel).
    assert (Hm : memN (cls d) ordinary_text_classes = true).
    { cbn [tag_types] in Hsel. destruct Hist as [E|E]; rewrite E in Hsel; exact Hsel. }
    unfold ordinary_text_classes, memN in Hm. cbn in Hm.
    rewrite orb_false_r in Hm. apply orb_prop in Hm.
    destruct Hm as [Hm|Hm]; apply N.eqb_eq in Hm; auto.
  Qed.

  (* a container element yields exactly its own class *)
  Theorem container_element_only_own_class : forall fuel x strip c d s,
    t_ist p x = Some [c] ->
    In (d, s) (tag_all_strings fuel h p x strip TyDefault) -> cls d = c.
  Proof.
    intros fuel x strip c d s Hist Hin.
    apply tag_strings_only_selected in Hin. destruct Hin as (_ & Hsel).
    cbn [tag_types] in Hsel. rewrite Hist in Hsel. cbn in Hsel.
    rewrite orb_false_r in Hsel. now apply N.eqb_eq in Hsel.
  Qed.

  (* ---- a string asked about itself ---- *)
  Theorem str_strings_spec : forall x strip types,
    str_all_strings h p x strip types =
    filter (fun ds => negb (is_empty (snd ds)))
           (if type_selected (str_types types) (cls x)
            then map (fun s => (x, s)) (shown py_strip strip (text x)) else []).
  Proof.
    intros x strip types. unfold str_all_strings, shown, cls, text.
    destruct (type_selected (str_types types) (t_cls p x)); [|reflexivity].
    destruct strip.
    - destruct (py_strip (txt (h x))); reflexivity.
    - destruct (txt (h x)); reflexivity.
  Qed.

  (* ---- .string ---- *)
  Definition sres_of (o : option nat) : sres := match o with Some x => SIs x | None => SNone end.

  Lemma tag_string_sole : forall t fuel,
    (forall s, In s (subterms t) -> node_ok h s) -> length (pre t) <= fuel ->
    tag_string fuel h (rid t) = sres_of (sole isstr t).
  Proof.
    induction t as [i ks IH] using tree_ind'. intros fuel Hok Hfuel.
    destruct fuel as [|f]; [cbn in Hfuel; lia|].
    destruct (Hok (Node i ks) (subterms_self _)) as (Hk & _).
    cbn [rid tkids] in Hk. cbn [tag_string rid]. rewrite Hk.
    destruct ks as [|c ks']; [reflexivity|].
    destruct ks' as [|c2 ks'']; [|reflexivity].
    cbn [map sole]. unfold isstr at 1.
    destruct (is_tag h (rid c)) eqn:Et; cbn [negb]; [|reflexivity].
    inversion IH as [|? ? IHc _]; subst.
    apply IHc.
    - intros s Hs. apply Hok. apply (in_subterms_kid s c (Node i [c])); [left; reflexivity|exact Hs].
    - cbn [pre flat_map] in Hfuel. rewrite app_nil_r in Hfuel. cbn in Hfuel. lia.
  Qed.

  Theorem string_prop_spec : forall T linked t fuel,
    rep1 h T linked -> In t (subterms T) -> length (pre T) <= fuel ->
    string_prop fuel h (rid t) =
    (if isstr (rid t) then SIs (rid t) else sres_of (sole isstr t)).
  Proof.
    intros T linked t fuel Hrep Hin Hfuel. unfold string_prop, isstr at 1.
    destruct (is_tag h (rid t)); cbn [negb]; [|reflexivity].
    apply tag_string_sole.
    - intros s Hs. apply (rep1_node_ok h T linked s Hrep). apply (subterms_trans s t T Hin Hs).
    - pose proof (subterm_length t T Hin). lia.
  Qed.

End Refine.

Theorem sole_iff_chain : forall (isstr : nat -> bool) t s, sole isstr t = Some s <-> sole_chain isstr t s.
Proof.
  intros isstr. induction t as [i ks IH] using tree_ind'. intros s. split.
  - destruct ks as [|c ks']; [discriminate|]. destruct ks' as [|c2 ks'']; [|discriminate].
    cbn [sole]. destruct (isstr (rid c)) eqn:Ec.
    + intros E. inversion E; subst. apply (sole_here isstr (Node i [c]) c); [reflexivity|exact Ec].
    + intros E. inversion IH as [|? ? IHc _]; subst.
      apply (sole_down isstr (Node i [c]) c s); [reflexivity|exact Ec|]. now apply IHc.
  - intros H. inversion H as [t0 c Hk Hc Ht|t0 c s0 Hk Hc Hs Ht]; subst; cbn [tkids] in Hk; subst ks;
      cbn [sole]; rewrite Hc.
    + reflexivity.
    + inversion IH as [|? ? IHc _]; subst. now apply IHc.
Qed.

(* when .string is a string, it is the only string beneath the element, whatever its class *)
Lemma sole_only_string : forall (isstr : nat -> bool) t s,
  (forall u, In u (subterms t) -> isstr (rid u) = true -> tkids u = []) ->
  sole isstr t = Some s -> filter isstr (tl (pre t)) = [s].
Proof.
  intros isstr. induction t as [i ks IH] using tree_ind'. intros s Hleaf.
  destruct ks as [|c ks']; [discriminate|]. destruct ks' as [|c2 ks'']; [|discriminate].
  cbn [sole]. cbn [pre tl flat_map]. rewrite app_nil_r.
  destruct (isstr (rid c)) eqn:Ec.
  - intros E. inversion E; subst.
    assert (Hc : tkids c = []).
    { apply Hleaf; [|exact Ec]. apply (in_subterms_kid c c (Node i [c])); [left; reflexivity|apply subterms_self]. }
    destruct c as [j kc]. cbn [tkids] in Hc. subst kc. cbn. cbn [rid] in Ec. now rewrite Ec.
  - intros E. inversion IH as [|? ? IHc _]; subst.
    rewrite (pre_cons c). cbn [filter]. rewrite Ec.
    apply IHc; [|exact E].
    intros u Hu. apply Hleaf. apply (in_subterms_kid u c (Node i [c])); [left; reflexivity|exact Hu].
Qed.


(* ------------------------------------------------------------------ configuration *)
(* Tag.__init__ with a builder: a container name gets exactly its class, every other name the main set *)
Theorem init_interesting_spec : forall containers name passed,
  init_interesting (Some containers) name passed =
  Some (match assocS name containers with Some c => [c] | None => ordinary_text_classes end).
Proof. intros containers name passed. unfold init_interesting. destruct (assocS name containers); reflexivity. Qed.

Theorem init_interesting_no_builder : forall name passed, init_interesting None name passed = passed.
Proof. reflexivity. Qed.

(* string_container without replacement classes: an explicit non-default class is kept; otherwise the
   container on top of the stack decides *)
Theorem string_container_plain : forall containers top base,
  string_container_of [] containers top base =
  match base with
  | Some c => if N.eqb c 0 then match top with
                                | Some name => match assocS name containers with Some k => k | None => 0%N end
                                | None => 0%N end
              else c
  | None => match top with
            | Some name => match assocS name containers with Some k => k | None => 0%N end
            | None => 0%N end
  end.
Proof.
  intros containers top base. unfold string_container_of. cbn [assocN].
  destruct base as [c|]; destruct top as [name|]; cbn.
  - destruct (N.eqb c 0) eqn:E; [apply N.eqb_eq in E; subst|]; reflexivity.
  - destruct (N.eqb c 0) eqn:E; [apply N.eqb_eq in E; subst|]; reflexivity.
  - reflexivity.
  - reflexivity.
Qed.
