(* Generic glue around the extracted [run_cmd]: read one s-expression per line from stdin,
   print the resulting s-expression on one line. Nothing property-specific lives here. *)
open Model

let rec pos_of_int n =
  if n = 1 then XH else if n land 1 = 0 then XO (pos_of_int (n lsr 1)) else XI (pos_of_int (n lsr 1))
let z_of_int n = if n = 0 then Z0 else if n > 0 then Zpos (pos_of_int n) else Zneg (pos_of_int (-n))
let rec int_of_pos = function XH -> 1 | XO p -> 2 * int_of_pos p | XI p -> 2 * int_of_pos p + 1
let int_of_z = function Z0 -> 0 | Zpos p -> int_of_pos p | Zneg p -> - (int_of_pos p)

let parse (s : string) : sexp =
  let n = String.length s in
  let i = ref 0 in
  let rec skip () = if !i < n && (s.[!i] = ' ' || s.[!i] = '\t' || s.[!i] = '\r') then (incr i; skip ()) in
  let rec item () =
    skip ();
    if !i >= n then failwith "eof"
    else if s.[!i] = '(' then begin
      incr i;
      let acc = ref [] in
      let rec loop () =
        skip ();
        if !i >= n then failwith "unclosed"
        else if s.[!i] = ')' then incr i
        else (acc := item () :: !acc; loop ()) in
      loop (); L (List.rev !acc)
    end else begin
      let j = !i in
      while !i < n && s.[!i] <> ' ' && s.[!i] <> '(' && s.[!i] <> ')' do incr i done;
      A (z_of_int (int_of_string (String.sub s j (!i - j))))
    end in
  item ()

let rec print buf = function
  | A z -> Buffer.add_string buf (string_of_int (int_of_z z))
  | L l ->
    Buffer.add_char buf '(';
    List.iteri (fun k x -> if k > 0 then Buffer.add_char buf ' '; print buf x) l;
    Buffer.add_char buf ')'

let () =
  let buf = Buffer.create 65536 in
  try
    while true do
      let line = input_line stdin in
      Buffer.clear buf;
      (try print buf (run_cmd (parse line))
       with e -> (Buffer.clear buf; Buffer.add_string buf ("ERR " ^ Printexc.to_string e)));
      print_string (Buffer.contents buf); print_newline ()
    done
  with End_of_file -> ()
