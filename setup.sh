#!/bin/sh
# Build everything offline from files on disk: tables from /repo, full .vo build, extracted model driver.
set -e
cd "$(dirname "$0")"
export PYTHONPATH=/repo PYTHONHASHSEED=0
mkdir -p build evidence replays
/venv/bin/python translator/gen_tables.py
cd coq
coq_makefile -f _CoqProject -o Makefile
timeout 3000 make -j16
cd ../build
cp ../ocaml/driver.ml .
ocamlfind ocamlopt -w -a model.mli model.ml driver.ml -o modelrun
echo setup-ok
