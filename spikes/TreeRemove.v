From Coq Require Import List Arith Lia Bool PeanoNat.
Import ListNotations.

Inductive tree := Node (i: nat) (ks: list tree).
Definition rid (t: tree) := match t with Node i _ => i end.
Definition kids (t: tree) := match t with Node _ ks => ks end.

Fixpoint pre (t: tree) : list nat := match t with Node i ks => i :: flat_map pre ks end.
Definition pres (ks: list tree) := flat_map pre ks.

(* induction principle *)
Section TreeInd.
  Variable P : tree -> Prop.
  Hypothesis H : forall i ks, Forall P ks -> P (Node i ks).
  Fixpoint tree_ind' (t: tree) : P t :=
    match t with
    | Node i ks => H i ks ((fix go (l: list tree) : Forall P l :=
                              match l with [] => Forall_nil _ | k :: l' => Forall_cons _ (tree_ind' k) (go l') end) ks)
    end.
End TreeInd.

(* remove the subtree rooted at x (x not the root of t); returns new tree and the removed subtree *)
Fixpoint remove (x: nat) (t: tree) : tree * option tree :=
  match t with
  | Node i ks =>
      let fix go (l: list tree) : list tree * option tree :=
        match l with
        | [] => ([], None)
        | k :: l' =>
            if Nat.eqb (rid k) x then (l', Some k)
            else match remove x k with
                 | (k', Some s) => (k' :: l', Some s)
                 | (k', None) => let '(l'', r) := go l' in (k' :: l'', r)
                 end
        end in
      let '(ks', r) := go ks in (Node i ks', r)
  end.

(* the list-level function, stated separately for lemmas *)
Fixpoint remove_l (x: nat) (l: list tree) : list tree * option tree :=
  match l with
  | [] => ([], None)
  | k :: l' =>
      if Nat.eqb (rid k) x then (l', Some k)
      else match remove x k with
           | (k', Some s) => (k' :: l', Some s)
           | (k', None) => let '(l'', r) := remove_l x l' in (k' :: l'', r)
           end
  end.

Lemma remove_Node x i ks : remove x (Node i ks) = let '(ks', r) := remove_l x ks in (Node i ks', r).
Proof.
  cbn [remove]. 
  assert (E: forall l, (fix go (l : list tree) : list tree * option tree :=
       match l with
       | [] => ([], None)
       | k :: l' =>
           if rid k =? x
           then (l', Some k)
           else
            match remove x k with
            | (k', Some s) => (k' :: l', Some s)
            | (k', None) => let '(l'', r) := go l' in (k' :: l'', r)
            end
       end) l = remove_l x l).
  { induction l as [|k l IH]; cbn; [reflexivity|]. destruct (rid k =? x); [reflexivity|].
    destruct (remove x k) as [k' [s|]]; [reflexivity|]. rewrite IH. reflexivity. }
  rewrite E. reflexivity.
Qed.

Lemma pre_rid t : exists r, pre t = rid t :: r.
Proof. destruct t; cbn; eauto. Qed.

(* Main contiguity lemma *)
Definition spec_remove (x: nat) (L L': list nat) (r: option tree) : Prop :=
  match r with
  | Some s => rid s = x /\ exists A B, L = A ++ pre s ++ B /\ L' = A ++ B
  | None => L' = L /\ ~ In x L
  end.

Lemma remove_spec x : forall t, rid t <> x ->
  spec_remove x (pre t) (pre (fst (remove x t))) (snd (remove x t)) /\ rid (fst (remove x t)) = rid t.
Proof.
  induction t as [i ks IH] using tree_ind'. intros Hroot. cbn [rid] in Hroot.
  rewrite remove_Node.
  assert (HL : spec_remove x (pres ks) (pres (fst (remove_l x ks))) (snd (remove_l x ks))).
  { induction ks as [|k ks IHks]; cbn.
    - split; [reflexivity| tauto].
    - inversion IH as [|? ? Hk Hks]; subst.
      destruct (Nat.eqb_spec (rid k) x) as [Ek|Nk].
      + cbn. split; [exact Ek|]. exists [], (pres ks). cbn. split; reflexivity.
      + specialize (Hk Nk). destruct Hk as [Hk Hrid].
        destruct (remove x k) as [k' [s|]] eqn:Er; cbn [fst snd] in *.
        * cbn. destruct Hk as [Hs (A & B & HA & HB)]. split; [exact Hs|].
          exists A, (B ++ pres ks). rewrite HA, HB. rewrite <- !app_assoc. split; reflexivity.
        * specialize (IHks Hks). destruct (remove_l x ks) as [l'' r] eqn:El. cbn [fst snd] in *.
          destruct Hk as [Hk1 Hk2]. cbn [pres flat_map]. fold (pres l'') (pres ks).
          destruct r as [s|]; cbn in IHks |- *.
          -- destruct IHks as [Hs (A & B & HA & HB)]. split; [exact Hs|].
             exists (pre k ++ A), B. rewrite Hk1, HA, HB. rewrite <- !app_assoc. split; reflexivity.
          -- destruct IHks as [E1 E2]. rewrite Hk1, E1. split; [reflexivity|].
             rewrite in_app_iff. tauto. }
  destruct (remove_l x ks) as [ks' r] eqn:El. cbn [fst snd] in *.
  split; [|reflexivity].
  cbn [pre]. fold (pres ks) (pres ks').
  destruct r as [s|]; cbn in HL |- *.
  - destruct HL as [Hs (A & B & HA & HB)]. split; [exact Hs|]. exists (i :: A), B. rewrite HA, HB. split; reflexivity.
  - destruct HL as [E1 E2]. rewrite E1. split; [reflexivity|]. intros [H|H]; [congruence|tauto].
Qed.
Print Assumptions remove_spec.
