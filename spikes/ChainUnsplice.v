From Coq Require Import List Arith Lia Bool PeanoNat.
Import ListNotations.

Definition ptr := nat -> option nat.
Definition upd (f: ptr) (x: nat) (v: option nat) : ptr := fun y => if Nat.eqb y x then v else f y.
Definition updo (f: ptr) (x: option nat) (v: option nat) : ptr := match x with Some x => upd f x v | None => f end.

Definition pred_at (L: list nat) (i: nat) : option nat := match i with 0 => None | S j => nth_error L j end.

Definition chain (L: list nat) (ne pe: ptr) : Prop :=
  forall i x, nth_error L i = Some x -> ne x = nth_error L (S i) /\ pe x = pred_at L i.

Definition unsplice (ne pe: ptr) (x last: nat) : ptr * ptr :=
  let nxt := ne last in
  let prv := pe x in
  let ne1 := updo ne prv nxt in
  let pe1 := updo pe nxt prv in
  (upd ne1 last None, upd pe1 x None).

Lemma nth_inj (L: list nat) i j x : NoDup L -> nth_error L i = Some x -> nth_error L j = Some x -> i = j.
Proof.
  intros ND Hi Hj. apply (proj1 (NoDup_nth_error L) ND); [apply nth_error_Some; congruence | congruence].
Qed.

Lemma upd_eq f x v : upd f x v x = v. Proof. unfold upd. now rewrite Nat.eqb_refl. Qed.
Lemma upd_ne f x v y : y <> x -> upd f x v y = f y.
Proof. unfold upd. intros H. destruct (Nat.eqb_spec y x); congruence. Qed.

Lemma nth_app3_A (A M B: list nat) i : i < length A -> nth_error (A ++ M ++ B) i = nth_error A i.
Proof. intros. now rewrite nth_error_app1. Qed.
Lemma nth_app3_M (A M B: list nat) i : i < length M -> nth_error (A ++ M ++ B) (length A + i) = nth_error M i.
Proof. intros. rewrite nth_error_app2 by lia. replace (length A + i - length A) with i by lia. now rewrite nth_error_app1. Qed.
Lemma nth_app3_B (A M B: list nat) i : nth_error (A ++ M ++ B) (length A + length M + i) = nth_error B i.
Proof. rewrite nth_error_app2 by lia. rewrite nth_error_app2 by lia. f_equal. lia. Qed.

Theorem unsplice_ok A M B ne pe x last k :
  NoDup (A ++ M ++ B) -> nth_error M 0 = Some x -> length M = S k -> nth_error M k = Some last ->
  chain (A ++ M ++ B) ne pe ->
  chain (A ++ B) (fst (unsplice ne pe x last)) (snd (unsplice ne pe x last))
  /\ chain M (fst (unsplice ne pe x last)) (snd (unsplice ne pe x last)).
Proof.
  intros ND Hx HlenM Hlast CH.
  set (L := A ++ M ++ B) in *.
  assert (Hx' : nth_error L (length A + 0) = Some x) by (unfold L; rewrite nth_app3_M; [exact Hx | lia]).
  assert (Hl' : nth_error L (length A + k) = Some last) by (unfold L; rewrite nth_app3_M; [exact Hlast | lia]).
  destruct (CH _ _ Hx') as [_ Hpex]. destruct (CH _ _ Hl') as [Hnel _].
  assert (Hnxt : ne last = nth_error B 0).
  { rewrite Hnel. unfold L. replace (S (length A + k)) with (length A + length M + 0) by lia. apply nth_app3_B. }
  assert (Hprv : pe x = pred_at A (length A)).
  { rewrite Hpex. rewrite Nat.add_0_r. destruct (length A) eqn:E; simpl; [reflexivity|].
    unfold L. rewrite nth_app3_A by lia. reflexivity. }
  unfold unsplice; cbn [fst snd]. rewrite Hnxt, Hprv.
  (* position facts *)
  assert (posA : forall i y, nth_error A i = Some y -> nth_error L i = Some y).
  { intros i y H. unfold L. rewrite nth_app3_A; [exact H| apply nth_error_Some; congruence]. }
  assert (posM : forall i y, nth_error M i = Some y -> nth_error L (length A + i) = Some y).
  { intros i y H. unfold L. rewrite nth_app3_M; [exact H| apply nth_error_Some; congruence]. }
  assert (posB : forall i y, nth_error B i = Some y -> nth_error L (length A + length M + i) = Some y).
  { intros i y H. unfold L. now rewrite nth_app3_B. }
  split.
  - (* chain (A ++ B) *)
    intros i y Hy.
    destruct (Nat.lt_ge_cases i (length A)) as [HiA|HiB].
    + rewrite nth_error_app1 in Hy by exact HiA.
      pose proof (posA _ _ Hy) as HyL. destruct (CH _ _ HyL) as [Hney Hpey].
      assert (y <> last) by (intros ->; pose proof (nth_inj _ _ _ _ ND HyL Hl'); lia).
      assert (y <> x) by (intros ->; pose proof (nth_inj _ _ _ _ ND HyL Hx'); lia).
      rewrite !upd_ne by assumption.
      split.
      * destruct (Nat.eq_dec (S i) (length A)) as [Elast|Nlast].
        -- (* y is the last of A = prv *)
           rewrite <- Elast. cbn [pred_at]. rewrite Hy. cbn [updo]. rewrite upd_eq.
           rewrite nth_error_app2 by lia. f_equal. lia.
        -- assert (Hy_not_prv : forall p, pred_at A (length A) = Some p -> y <> p).
           { intros p Hp ->. destruct (length A) eqn:E; [discriminate|]. cbn in Hp.
             pose proof (posA _ _ Hp) as HpL. pose proof (nth_inj _ _ _ _ ND HyL HpL). lia. }
           destruct (pred_at A (length A)) as [p|] eqn:Ep; cbn [updo].
           ++ rewrite upd_ne by (apply Hy_not_prv; reflexivity).
              rewrite Hney. unfold L. rewrite nth_app3_A by lia. rewrite nth_error_app1 by lia. reflexivity.
           ++ rewrite Hney. unfold L. rewrite nth_app3_A by lia. rewrite nth_error_app1 by lia. reflexivity.
      * (* pe y unchanged: y is not nxt (nxt in B) *)
        assert (Hy_not_nxt : forall q, nth_error B 0 = Some q -> y <> q).
        { intros q Hq ->. pose proof (posB _ _ Hq) as HqL. pose proof (nth_inj _ _ _ _ ND HyL HqL). lia. }
        destruct (nth_error B 0) as [q|] eqn:Eq; cbn [updo].
        -- rewrite upd_ne by (apply Hy_not_nxt; reflexivity). rewrite Hpey.
           destruct i; cbn [pred_at]; [reflexivity|]. unfold L. rewrite nth_app3_A by lia. rewrite nth_error_app1 by lia. reflexivity.
        -- rewrite Hpey. destruct i; cbn [pred_at]; [reflexivity|]. unfold L. rewrite nth_app3_A by lia. rewrite nth_error_app1 by lia. reflexivity.
    + rewrite nth_error_app2 in Hy by exact HiB.
      remember (i - length A) as j eqn:Ej0.
      pose proof (posB _ _ Hy) as HyL. destruct (CH _ _ HyL) as [Hney Hpey].
      assert (y <> last) by (intros ->; pose proof (nth_inj _ _ _ _ ND HyL Hl'); lia).
      assert (y <> x) by (intros ->; pose proof (nth_inj _ _ _ _ ND HyL Hx'); lia).
      rewrite !upd_ne by assumption.
      split.
      * assert (Hy_not_prv : forall p, pred_at A (length A) = Some p -> y <> p).
        { intros p Hp ->. destruct (length A) eqn:E; [discriminate|]. cbn in Hp.
          pose proof (posA _ _ Hp) as HpL. pose proof (nth_inj _ _ _ _ ND HyL HpL). lia. }
        destruct (pred_at A (length A)) as [p|] eqn:Ep; cbn [updo];
          [rewrite upd_ne by (apply Hy_not_prv; reflexivity)|];
          rewrite Hney; replace (S (length A + length M + j)) with (length A + length M + S j) by lia;
          unfold L; rewrite nth_app3_B; rewrite nth_error_app2 by lia; f_equal; lia.
      * destruct (Nat.eq_dec j 0) as [Ej|Nj].
        -- (* y = nxt *) rewrite Ej in Hy. rewrite Hy. cbn [updo]. rewrite upd_eq.
           replace i with (length A) by lia.
           destruct (length A) eqn:E; cbn [pred_at]; [reflexivity|]. rewrite nth_error_app1 by lia. reflexivity.
        -- assert (Hy_not_nxt : forall q, nth_error B 0 = Some q -> y <> q).
           { intros q Hq ->. pose proof (posB _ _ Hq) as HqL. pose proof (nth_inj _ _ _ _ ND HyL HqL). lia. }
           assert (Hi : i = S (length A + (j - 1))) by lia.
           assert (Hj : length A + length M + j = S (length A + length M + (j - 1))) by lia.
           destruct (nth_error B 0) as [q|] eqn:Eq; cbn [updo];
             [rewrite upd_ne by (apply Hy_not_nxt; reflexivity)|];
             rewrite Hpey; rewrite Hj, Hi; cbn [pred_at];
             replace (length A + length M + (j - 1)) with (length A + length M + (j - 1)) by lia;
             unfold L; rewrite nth_app3_B;
             rewrite nth_error_app2 by lia; f_equal; lia.
  - (* chain M *)
    intros i y Hy.
    assert (HiM : i < length M) by (apply nth_error_Some; congruence).
    pose proof (posM _ _ Hy) as HyL. destruct (CH _ _ HyL) as [Hney Hpey].
    assert (Hy_not_prv : forall p, pred_at A (length A) = Some p -> y <> p).
    { intros p Hp ->. destruct (length A) eqn:E; [discriminate|]. cbn in Hp.
      pose proof (posA _ _ Hp) as HpL. pose proof (nth_inj _ _ _ _ ND HyL HpL). lia. }
    assert (Hy_not_nxt : forall q, nth_error B 0 = Some q -> y <> q).
    { intros q Hq ->. pose proof (posB _ _ Hq) as HqL. pose proof (nth_inj _ _ _ _ ND HyL HqL). lia. }
    split.
    + destruct (Nat.eq_dec i k) as [->|Nk].
      * assert (y = last) by congruence. subst y. rewrite upd_eq. symmetry. apply nth_error_None. lia.
      * assert (y <> last) by (intros ->; pose proof (nth_inj _ _ _ _ ND HyL Hl'); lia).
        rewrite upd_ne by assumption.
        destruct (pred_at A (length A)) as [p|] eqn:Ep; cbn [updo];
          [rewrite upd_ne by (apply Hy_not_prv; reflexivity)|];
          rewrite Hney; replace (S (length A + i)) with (length A + S i) by lia;
          unfold L; rewrite nth_app3_M by lia; reflexivity.
    + destruct i as [|i'].
      * assert (y = x) by congruence. subst y. rewrite upd_eq. reflexivity.
      * assert (y <> x) by (intros ->; pose proof (nth_inj _ _ _ _ ND HyL Hx'); lia).
        rewrite upd_ne by assumption.
        destruct (nth_error B 0) as [q|] eqn:Eq; cbn [updo];
          [rewrite upd_ne by (apply Hy_not_nxt; reflexivity)|];
          rewrite Hpey; replace (length A + S i') with (S (length A + i')) by lia; cbn [pred_at];
          unfold L; rewrite nth_app3_M by lia; reflexivity.
Qed.
Print Assumptions unsplice_ok.
